"""C13 — a server restart at any persisted point resumes without losing work.

* ``ob_finalize`` (reducer + real ``replay_ticks_stream`` + real ``handler_status_from_exit_command``): a persisted log whose
  last tick ends the run is classified with the status matching how the run ended (completed + the very result / failed +
  error text / cancelled; a timeout is a failure), from any REP state, for every ending;
* ``ob_crash_step`` (inductive crash-consistency step): after the runner persisted tick ``t`` (``on_tick``) the only work
  that exists in runner memory alone is what ``t``'s commands put there.  For every REP state and tick: a crash right
  after persisting ``t`` loses nothing iff every event of a ``CommandQueueEvent`` in ``reduce(t, s)`` can be recovered from
  ``replay(log + [t])`` — running invocations are (rewind re-runs them: ``ob_crash_step`` checks the CommandRunWorker set
  of the resumed state), queued events are, **events a step just emitted are not** (known finding KF-C13-1);
* ``ob_restart_prefix`` (whole stack, crash point symbolic): the real in-process server stack
  (ServerRuntimeDecorator / IdleReleaseDecorator / PersistenceDecorator / BasicRuntime / _WorkflowService /
  MemoryWorkflowStore, on the virtual-time loop) runs a deterministic workflow to completion, then a NEW stack is started
  over a store that holds only the handler row and the first ``k`` persisted ticks (``k`` symbolic) and resumes the run
  through ``service.start()`` -> ``PersistenceDecorator._on_server_start``: it must end with the same status and result."""
from __future__ import annotations

import vlib.boot  # noqa: F401
from vlib.boot import B, drive
from vlib.ob import obligation
from vlib.h_handlers import conc, concb, native
from vlib.h_restart import run_first, run_restarted
from vlib.world import EVA, EVB, EVC, EvA, EvB, EvC, MYSTOP, STOP, StubPolicy, rep_R1, rep_R2, world_ab, world_ab_valid

import workflows.runtime.control_loop as cl_mod
from llama_agents.server._runtime.persistence_runtime import handler_status_from_exit_command
from workflows import Context, Workflow, step
from workflows.errors import WorkflowCancelledByUser, WorkflowTimeoutError
from workflows.events import Event, HumanResponseEvent, StartEvent, StopEvent
from workflows.retry_policy import retry_policy, stop_after_attempt, wait_fixed
from workflows.runtime.control_loop import _reduce_tick, replay_ticks_stream, rewind_in_progress
from workflows.runtime.types.commands import CommandQueueEvent, CommandRunWorker
from workflows.runtime.types.results import AddCollectedEvent, AddWaiter, StepWorkerFailed, StepWorkerResult
from workflows.runtime.types.ticks import TickAddEvent, TickCancelRun, TickStepResult, TickTimeout, TickWaiterTimeout

ENCODED = [
    "workflows.runtime.control_loop:replay_ticks_stream",
    "workflows.runtime.control_loop:_reduce_tick",
    "workflows.runtime.control_loop:rewind_in_progress",
    "llama_agents.server._runtime.persistence_runtime:handler_status_from_exit_command",
    "llama_agents.server._runtime.persistence_runtime:TickPersistenceDecorator.context_from_ticks",
    "llama_agents.server._runtime.persistence_runtime:PersistenceDecorator._on_server_start",
    "llama_agents.server._runtime.persistence_runtime:_PersistenceInternalRunAdapter.on_tick",
    "llama_agents.server._runtime.server_runtime:ServerRuntimeDecorator.run_workflow_handler",
    "llama_agents.server._store.memory_workflow_store:MemoryWorkflowStore.append_tick",
    "workflows.runtime.control_loop:_ControlLoopRunner._process_tick",
]
ASSUMES = [
    "a crash is modelled at tick granularity: the store holds exactly the ticks whose on_tick completed (append_tick is "
    "atomic), everything in process memory (tick buffer, timer heap, worker tasks, in-memory state store) is gone",
    "whole-stack obligation: MemoryWorkflowStore stands for the persistent store's tick log (a copy of the first k ticks is "
    "the surviving disk image); workflows are deterministic and carry their data in events (the in-memory state store does "
    "not survive a crash by construction); virtual clock; fixed ids",
    "ob_finalize / ob_crash_step: REP pre-state (C01); control_loop.time replaced by a harness clock for the replay",
]
OUTSIDE = ["SQLite/Postgres durability itself (fsync, torn writes)", "DBOS runtime (C27)", "crashes inside a store write",
           "workflows larger than the three generated ones; more than 14 persisted ticks"]

EXC = ValueError("boom")


class _Clock:
    def __init__(self, now) -> None:
        self.now = now

    def time(self):
        return self.now


async def _aiter(items):
    for x in items:
        yield x


# ----------------------------------------------------------------------------------------------- ob_finalize


@obligation(quick=150, thorough=400, partitions_quick=[f"ending == {e}" for e in range(6)],
            partitions_thorough=[f"ending == {e} and nw == {n}" for e in range(6) for n in (1, 2)],
            what="a log that ends the run is finalised with the matching status: StopEvent -> completed + that result; exhausted failure -> "
                 "failed + str(exception); cancel -> cancelled; timeout -> failed + timeout text; a log that does not end the run -> no exit command",
            bounds={"num_workers": "1..2", "queue": "0..1", "prefix tick before the ending": "none / add event", "replay clock": "0..3"})
def ob_finalize(nw: int, b1: bool, q: int, ending: int, pre_tick: bool, pol: int, rnow: int) -> bool:
    """
    pre: 1 <= nw <= 2 and world_ab_valid(nw, True, b1, False, q) and q <= 1
    pre: 0 <= ending <= 5 and 0 <= pol <= 1 and 0 <= rnow <= 3
    post: _
    """
    # the invocation on slot 0 of step a is running when the log starts (rewind keeps slot 0 for it)
    nw, q, ending, pol, rnow = conc(nw, 1, 2), conc(q, 0, 1), conc(ending, 0, 5), conc(pol, 0, 1), conc(rnow, 0, 3)
    b1, pre_tick = concb(b1), concb(pre_tick)
    policy = StubPolicy(0) if pol == 1 else None
    init = world_ab(nw, True, b1, False, q, policy=policy)
    log = []
    if pre_tick:
        log.append(TickAddEvent(event=EVB))
    if ending == 0:
        res, want = [StepWorkerResult(result=STOP)], ("completed", STOP, None)
    elif ending == 1:
        res, want = [StepWorkerResult(result=MYSTOP)], ("completed", MYSTOP, None)
    elif ending == 2:
        res, want = [StepWorkerFailed(exception=EXC, failed_at=1.0)], ("failed", None, "boom")
    elif ending == 5:
        res, want = [StepWorkerResult(result=EVB)], None
    else:
        res, want = None, None
    if res is not None:
        log.append(TickStepResult.model_construct(step_name="a", worker_id=0, event=EVA, result=res))
    elif ending == 3:
        log.append(TickCancelRun())
        want = ("cancelled", None, None)
    else:
        log.append(TickTimeout(timeout=7.0))
        want = ("failed", None, None)
    saved = cl_mod.time
    cl_mod.time = _Clock(rnow)
    try:
        rr = drive(replay_ticks_stream(init, _aiter(log)))
    finally:
        cl_mod.time = saved
    if want is None:
        return rr.exit_command is None and rr.state.is_running
    if rr.exit_command is None:
        return False
    got = handler_status_from_exit_command(rr.exit_command)
    if got is None or got[0] != want[0]:
        return False
    if want[0] == "completed":
        return got[1] is want[1] and got[2] is None
    if ending == 2:
        return got[1] is None and got[2] == "boom"
    if ending == 4:
        return got[1] is None and isinstance(rr.exit_command.exception, WorkflowTimeoutError) and "7" in (got[2] or "")
    return got[1] is None and got[2] is None


# ----------------------------------------------------------------------------------------------- ob_crash_step


def _holds(state, ev) -> bool:
    for ws in state.workers.values():
        for a in ws.queue:
            if a.event is ev:
                return True
        for x in ws.in_progress:
            if x.event is ev:
                return True
    return False


@obligation(quick=150, thorough=400, # partitions pair each result kind of the known-finding class with one outside it, so none becomes empty under the exclusion
            partitions_quick=[f"tk == {t}" for t in range(4)] + [f"tk == 4 and kind in ({a}, {b})" for a, b in ((0, 1), (2, 3), (4, 5))],
            partitions_thorough=[f"tk == {t} and nw == {n}" for t in range(4) for n in (1, 2, 3)] + [f"tk == 4 and kind in ({a}, {b}) and nw == {n}" for a, b in ((0, 1), (2, 3), (4, 5)) for n in (1, 2, 3)],
            what="crash right after tick t is persisted: every event the tick queued (CommandQueueEvent -> runner memory only) must be recoverable "
                 "from the replayed state; every invocation running in the replayed state is restarted by the resume (rewind emits its CommandRunWorker)",
            bounds={"num_workers": "1..3", "queue": "0..1", "ticks": "add event / targeted add / waiter timeout / cancel / step result x6", "policy": "none / retry now / retry later"})
def ob_crash_step(nw: int, b0: bool, b1: bool, b2: bool, q: int, wk: int, tk: int, kind: int, pol: int, wid: int) -> bool:
    """
    pre: world_ab_valid(nw, b0, b1, b2, q) and q <= 1 and 0 <= wk <= 1
    pre: 0 <= tk <= 4 and 0 <= kind <= 5 and 0 <= pol <= 2
    pre: 0 <= wid <= 2 and (tk != 4 or (b0 if wid == 0 else (b1 if wid == 1 else b2)))
    post: _
    """
    policy = None if pol == 0 else StubPolicy(pol)  # 1: retry immediately, 2: retry after a delay
    st = world_ab(nw, b0, b1, b2, q, wait_kind=wk, policy=policy, buf_live=1, buf_snap=1)
    if tk == 0:
        tick = TickAddEvent(event=EVA)
    elif tk == 1:
        tick = TickAddEvent(event=EVB, step_name="b")
    elif tk == 2:
        tick = TickWaiterTimeout(step_name="a", waiter_id="w1")
    elif tk == 3:
        tick = TickCancelRun()
    else:
        if kind == 0:
            res = [StepWorkerResult(result=None)]
        elif kind == 1:
            res = [StepWorkerResult(result=EVB)]
        elif kind == 2:
            res = [StepWorkerFailed(exception=EXC, failed_at=1.0)]
        elif kind == 3:
            res = [AddCollectedEvent(event_id="buf", event=EVA)]
        elif kind == 4:
            res = [AddWaiter(waiter_id="w9", event_type=EvC, timeout=None)]
        else:
            res = [StepWorkerResult(result=STOP)]
        tick = TickStepResult.model_construct(step_name="a", worker_id=wid, event=EVA, result=res)
    st2, cmds = _reduce_tick(tick, st, 1, "r")
    # what a restarted server rebuilds from log + [t]: the same reducer result, then the resume's rewind
    resumed, rcmds = rewind_in_progress(st2, 2)
    for c in cmds:
        if isinstance(c, CommandQueueEvent) and st2.is_running:
            if not _holds(resumed, c.event):
                return False
    # everything running after the resume has a worker command (nothing sits in in_progress without being executed)
    started = sorted((c.step_name, c.id) for c in rcmds if isinstance(c, CommandRunWorker))
    want = sorted((n, x.worker_id) for n, ws in resumed.workers.items() for x in ws.in_progress)
    return started == want and rep_R1(resumed) and rep_R2(resumed)


# ----------------------------------------------------------------------------------------------- whole stack


class E1(Event):
    n: int


class E2(Event):
    n: int


class E3(Event):
    n: int


def _make(kind: int, d: int, nfail: int, same: bool = False, nw: int = 2):
    """Three deterministic workflows; data travels in events.  (kind 2 with ``same``: both fanned-out events carry the SAME payload, so the run
    holds two equal-but-distinct work items; ``nw`` workers on the mapping step: 1 = one executing + one queued, 2 = both executing.)
    0 chain  start -> s1 -> s2 -> stop        1 chain whose s1 fails ``nfail`` times (wait_fixed(d), budget 4)
    2 fan-out/join: start emits two E1 (ctx.send_event), s1 maps E1 -> E2 (2 workers), s2 collects two E2 and stops"""

    if kind == 2:
        class Fan(Workflow):
            @step
            async def s0(self, ctx: Context, ev: StartEvent) -> E1 | None:
                ctx.send_event(E1(n=1))
                ctx.send_event(E1(n=1 if same else 2))
                return None

            @step(num_workers=nw)
            async def s1(self, ctx: Context, ev: E1) -> E2:
                if same:
                    import asyncio

                    await asyncio.sleep(1)      # both equal work items are in the run at the same time
                return E2(n=ev.n * 10)

            @step
            async def s2(self, ctx: Context, ev: E2) -> StopEvent | None:
                got = ctx.collect_events(ev, [E2, E2])
                if got is None:
                    return None
                return StopEvent(result=sorted(e.n for e in got))

        return Fan(timeout=None)

    class Chain(Workflow):
        @step
        async def s0(self, ctx: Context, ev: StartEvent) -> E1:
            return E1(n=1)

        @step(retry_policy=retry_policy(wait=wait_fixed(d), stop=stop_after_attempt(4)))
        async def s1(self, ctx: Context, ev: E1) -> E2:
            if kind == 1 and ctx.retry_info().retry_number < nfail:
                raise ValueError("transient")
            return E2(n=ev.n + 1)

        @step
        async def s2(self, ctx: Context, ev: E2) -> StopEvent:
            return StopEvent(result=ev.n + 1)

    return Chain(timeout=None)


_FIRST = {}


def _first(kind: int, d: int, nfail: int):
    key = (kind, d, nfail)
    if key not in _FIRST:
        _FIRST[key] = native(run_first, lambda: _make(kind, d, nfail))
    return _FIRST[key]


def _causes(ticks):
    """For every add_event tick that a step caused: (index of the add_event, index of the causing step_result).
    Provenance in the generated workflows: E1 <- the single s0 result; the i-th fresh E2 <- the i-th successful s1 result;
    a retried event (attempts >= 1) <- the nearest preceding failed result of that step."""
    out = []
    s1_ok = [i for i, t in enumerate(ticks) if t.get("type") == "step_result" and t.get("step_name") == "s1"
             and any(r.get("type") == "result" for r in t.get("result", []))]
    s0 = [i for i, t in enumerate(ticks) if t.get("type") == "step_result" and t.get("step_name") == "s0"]
    n_e2 = 0
    for j, t in enumerate(ticks):
        if t.get("type") != "add_event":
            continue
        qn = str(t.get("event", {}).get("qualified_name", ""))
        if (t.get("attempts") or 0) >= 1:
            c = [i for i in range(j) if ticks[i].get("type") == "step_result" and ticks[i].get("step_name") == t.get("step_name")
                 and any(r.get("type") == "failed" for r in ticks[i].get("result", []))]
            out.append((j, c[-1]))
        elif qn.endswith("E1"):
            out.append((j, s0[0]))
        elif qn.endswith("E2"):
            out.append((j, s1_ok[n_e2]))
            n_e2 += 1
    return out


def loses_emitted_event(kind: int, d: int, nfail: int, k: int) -> bool:
    """Class of KF-C13-1: among the first k persisted ticks there is the completion of a step whose emitted event (returned,
    sent with ctx.send_event, or re-queued for a retry) has its own TickAddEvent OUTSIDE the first k ticks — that event
    lived only in the dead process' memory (tick buffer, timer heap or mailbox)."""
    kind, d, nfail, k = conc(kind, 0, 2), conc(d, 0, 2), conc(nfail, 0, 2), conc(k, 1, 14)
    ticks = _first(kind, d, nfail)["ticks"]
    if k > len(ticks):
        return False
    for j, c in native(_causes, ticks):
        if j >= k and c < k:
            return True
    return False


KMAX = 14


@obligation(quick=240, thorough=900,
            partitions_quick=[f"kind == {a} and k <= 5" for a in range(3)] + [f"kind == {a} and k > 5" for a in range(3)],
            # parity, not single values of k: single crash points inside the known-finding class would become empty partitions
            partitions_thorough=[f"kind == {a} and k % 2 == {m}" for a in range(3) for m in (0, 1)],
            what="whole in-process server stack: restart from the first k persisted ticks (k symbolic) ends with the same status and result as the "
                 "uninterrupted run; a log that already ends the run is finalised, not re-run",
            bounds={"workflows": "chain / chain with a step failing nfail<=2 times (retry delay d<=2) / fan-out + collect", "k": "1..len(log) <= 14"})
def ob_restart_prefix(kind: int, d: int, nfail: int, k: int) -> bool:
    """
    pre: 0 <= kind <= 2 and 0 <= d <= DMAX and 0 <= nfail <= 2 and 1 <= k <= KMAX
    pre: kind == 1 or (d == 0 and nfail == 0)
    post: _
    """
    kind, d, nfail, k = conc(kind, 0, 2), conc(d, 0, 2), conc(nfail, 0, 2), conc(k, 1, KMAX)
    first = _first(kind, d, nfail)
    if first["status"] != "completed":
        return False
    ticks = first["ticks"]
    if k > len(ticks):
        return True
    again = run_restarted(lambda: _make(kind, d, nfail), ticks[:k])
    if again["errors"] or again["loop_exceptions"]:
        return False
    return again["status"] == "completed" and again["result"] == first["result"]


DMAX = B(1, 2)


# ----------------------------------------------------------------------------------------------- finalise, whole stack


class Resp13(Event):
    pass


_EXEC = {"n": 0}


def _make_ending(kind: int):
    """0: a step parked in wait_for_event (log to be ended by a cancel / timeout tick)   1: a step that raises (no retry policy)"""
    if kind == 0:
        class WaitWF(Workflow):
            @step
            async def s0(self, ctx: Context, ev: StartEvent) -> StopEvent:
                _EXEC["n"] += 1
                await ctx.wait_for_event(Resp13, waiter_id="w", timeout=None)
                return StopEvent(result="answered")

        return WaitWF(timeout=None)

    class FailWF(Workflow):
        @step
        async def s0(self, ctx: Context, ev: StartEvent) -> StopEvent:
            _EXEC["n"] += 1
            raise ValueError("step failed for good")

    return FailWF(timeout=None)


@obligation(quick=200, thorough=400, partitions_quick=[f"ending == {e}" for e in range(3)], partitions_thorough=[f"ending == {e} and extra == {x}" for e in range(3) for x in (0, 1)],
            what="whole stack: the process died after the run's LAST tick was persisted but before the handler row was updated (row still 'running'): on "
                 "restart the run is finalised with the matching status — log ending in a cancel tick -> cancelled, in a timeout tick -> failed, in an "
                 "exhausted step failure -> failed with the error — and is NOT executed again",
            bounds={"endings": "cancel / timeout / step failure", "ticks between the park and the ending": "with or without the persisted idle check"})
def ob_restart_finalises(ending: int, extra: int) -> bool:
    """
    pre: 0 <= ending <= 2 and 0 <= extra <= 1
    post: _
    """
    from workflows.runtime.types.ticks import WorkflowTickAdapter

    ending, extra = conc(ending, 0, 2), conc(extra, 0, 1)
    kind = 1 if ending == 2 else 0
    first = native(run_first, lambda: _make_ending(kind), 1000, 4)
    ticks = list(first["ticks"])
    if ending == 2:
        if first["status"] != "failed":
            return False
        log, want = ticks, "failed"
    else:
        if first["status"] != "running":   # parked in its wait, nobody answers
            return False
        # up to the step result that registered the waiter (+ the idle check when it was persisted before the crash)
        k = 0
        for i, t in enumerate(ticks):
            if t.get("type") == "step_result":
                k = i + 1
                break
        if k == 0 or k + extra > len(ticks):
            return False
        last = TickCancelRun() if ending == 0 else TickTimeout(timeout=7.0)
        log = ticks[: k + extra] + [WorkflowTickAdapter.dump_python(last, mode="json")]
        want = "cancelled" if ending == 0 else "failed"
    _EXEC["n"] = 0
    again = run_restarted(lambda: _make_ending(kind), log, horizon=4)
    if again["errors"] or again["loop_exceptions"]:
        return False
    if again["status"] != want or _EXEC["n"] != 0:
        return False
    if ending == 2:
        return "step failed for good" in (again["error"] or "")
    return True


# ----------------------------------------------------------------------------------------------- crash at any store write

from vlib.h_restart import run_first_recording, run_restarted_from_writes, ticks_in  # noqa: E402


class Resp13b(Event):
    pass


class Resp13c(HumanResponseEvent):
    v: int = 0


def _make_w(kind: int):
    """0 chain, 1 chain whose s1 fails once (retry after 1 s), 2 fan-out + collect, 3 a step parked in wait_for_event(timeout=1)
    that turns the TimeoutError into its result (the run is announced idle while it waits: the handler row is stamped and un-stamped)"""
    if kind <= 2:
        return _make(kind, 1 if kind == 1 else 0, 1 if kind == 1 else 0)
    if kind >= 5:
        return _make(2, 0, 0, same=True, nw=1 if kind == 5 else 2)

    class WaitT(Workflow):
        @step
        async def s0(self, ctx: Context, ev: StartEvent) -> StopEvent:
            import asyncio

            try:
                await ctx.wait_for_event(Resp13b, waiter_id="w", timeout=1)
                return StopEvent(result="answered")
            except asyncio.TimeoutError:
                return StopEvent(result="timeout")

    if kind == 4:
        return WaitA(timeout=None)
    return WaitT(timeout=None)


class WaitA(Workflow):
    """a step parked in wait_for_event (no timeout) that a client answers at t = 1: the answer is accepted by the run (its add_event tick
    is persisted) before the woken step has produced its result"""

    @step
    async def s0(self, ctx: Context, ev: StartEvent) -> StopEvent:
        a = await ctx.wait_for_event(Resp13c, waiter_id="w", timeout=None)
        return StopEvent(result="answered:%d" % a.v)


NKIND13 = 7
_FIRSTW = {}


def _first_w(kind: int):
    if kind not in _FIRSTW:
        if kind == 4:
            _FIRSTW[kind] = native(run_first_recording, lambda: _make_w(kind), sends=[(1, 42)], make_event=lambda p: Resp13c(v=p))
        else:
            _FIRSTW[kind] = native(run_first_recording, lambda: _make_w(kind))
    return _FIRSTW[kind]


def n_writes(kind: int) -> int:
    return len(_first_w(conc(kind, 0, NKIND13 - 1))["writes"])


def answer_persisted(kind: int, k: int) -> bool:
    """kind 4: the client's answer is among the persisted ticks (an answer that never reached the store belongs to the dead process'
    client, who gets an error and retries: not 'accepted')"""
    kind, k = conc(kind, 0, NKIND13 - 1), conc(k, 1, 40)
    if kind != 4:
        return True
    for t in native(ticks_in, _first_w(kind)["writes"][:k]):
        if t.get("type") == "add_event" and "Resp13c" in str(t.get("event")):
            return True
    return False


def prefix_has_tick(kind: int, k: int) -> bool:
    """the statement is about stops 'after any persisted tick': a prefix without a tick is a start request that never took off"""
    kind, k = conc(kind, 0, NKIND13 - 1), conc(k, 1, 40)
    return len(native(ticks_in, _first_w(kind)["writes"][:k])) > 0


def write_prefix_known(kind: int, k: int) -> bool:
    """Classes of KF-C13-1/2 and KF-C14-2 at store-write granularity: among the ticks of the first k writes there is a step's
    completion whose emitted event has its own TickAddEvent outside them, or a wait_for_event timer was armed and its
    TickWaiterTimeout is not among them (the timer lived only in the dead process' heap)."""
    kind, k = conc(kind, 0, NKIND13 - 1), conc(k, 1, 40)
    if kind == 4:
        return False          # no timer, no emitted event: neither class applies
    writes = _first_w(kind)["writes"]
    full = native(ticks_in, writes)
    kt = len(native(ticks_in, writes[:k]))
    if kind <= 2 or kind >= 5:
        for j, c in native(_causes, full):
            if j >= kt and c < kt:
                return True
        return False
    armed = [i for i, t in enumerate(full[:kt]) if t.get("type") == "step_result" and any(r.get("type") == "add_waiter" for r in t.get("result", []))]
    fired = [i for i, t in enumerate(full[:kt]) if t.get("type") == "waiter_timeout"]
    return bool(armed) and not fired


WMAX13 = 40


@obligation(quick=300, thorough=900,
            partitions_quick=[f"kind == {a} and k <= 12" for a in range(7)] + [f"kind == {a} and k > 12" for a in range(7)],
            partitions_thorough=[f"kind == {a} and k % 4 == {m}" for a in range(7) for m in range(4)],
            what="whole in-process server stack, crash at ANY STORE WRITE: the first life's primitive store writes (handler-row upserts incl. idle "
                 "stamps, tick appends, event appends) are recorded in order; a fresh store gets the first k of them (k symbolic), a fresh stack is "
                 "started over it (service.start -> PersistenceDecorator._on_server_start): the run ends with the same status and result",
            bounds={"workflows": "chain / chain with one retry (delay 1) / fan-out + collect / wait_for_event(timeout=1) under idle announcement / "
                                 "wait_for_event answered by a client event (prefixes that contain the persisted answer) / fan-out of two EQUAL payloads into a "
                                 "1-worker step (one executing, one queued) / into a 2-worker step (both executing)",
                    "k": "every prefix of the recorded writes that contains at least one tick (<= 40 writes)"})
def ob_restart_any_write(kind: int, k: int) -> bool:
    """
    pre: 0 <= kind <= 6 and 1 <= k <= WMAX13 and k <= n_writes(kind) and prefix_has_tick(kind, k) and answer_persisted(kind, k)
    post: _
    """
    kind, k = conc(kind, 0, NKIND13 - 1), conc(k, 1, WMAX13)
    first = _first_w(kind)
    if first["status"] != "completed":
        return False
    again = run_restarted_from_writes(lambda: _make_w(kind), first["writes"][:k], horizon=8)
    if again["errors"] or again["loop_exceptions"]:
        return False
    return again["status"] == "completed" and again["result"] == first["result"]


# ------------------------------------------------------------------------------------------------ long logs on the SQLite store
# context_from_ticks replays what store.stream_ticks() yields; the SQLite store reads the log page by page.  A restart of a run with a long
# log must be handed every persisted tick exactly once, in order (a tick read twice is a step result applied twice).
from vlib.h_stores import TmpDir as _TmpDir, pick_int as _pick_int, untraced as _untraced13  # noqa: E402

from llama_agents.server._store.sqlite import sqlite_workflow_store as _sws13  # noqa: E402

_PAGE13 = _sws13._TICK_PAGE_SIZE
_NT13 = [1, _PAGE13 - 1, _PAGE13, _PAGE13 + 1, 2 * _PAGE13 - 1, 2 * _PAGE13, 2 * _PAGE13 + 1]


@obligation(quick=150, thorough=300,
            what="SQLite store: a persisted tick log of n ticks (n around the page size of stream_ticks: 1, P-1, P, P+1, 2P-1, 2P, 2P+1) read back the "
                 "way a restart reads it (stream_ticks) — and by the real PersistenceDecorator-side reader get_ticks — is the persisted log: "
                 "every tick once, in order, with exactly the data that was appended (nested mappings in their key order)",
            bounds={"log length": "7 values around 0, P, 2P (P = _TICK_PAGE_SIZE)"})
def ob_sqlite_long_log_read_back(sel: int) -> bool:
    """
    pre: 0 <= sel < len(_NT13)
    post: _
    """
    n = _NT13[_pick_int(sel, 0, len(_NT13) - 1)]
    with _untraced13():
        import asyncio
        import os

        with _TmpDir() as d:
            store = _sws13.SqliteWorkflowStore(os.path.join(d, "s.db"))

            import json

            def tick(i: int):
                # a tick carries an event whose payload is a MAPPING (dict-typed / dynamic fields): its key order is data — a re-executed step
                # that renders or iterates it must see what the first life saw
                return {"type": "t", "i": i, "event": {"value": {"widgets": i, "anvils": 0, "bolts": [{"z": 1, "a": 2}]}, "qualified_name": "x.Y"}}

            async def main():
                for i in range(n):
                    await store.append_tick("run1", tick(i))
                streamed = [json.dumps(t.tick_data) async for t in store.stream_ticks("run1")]
                got = [json.dumps(t.tick_data) for t in await store.get_ticks("run1")]
                return streamed, got

            loop = asyncio.new_event_loop()
            try:
                streamed, got = loop.run_until_complete(main())
            finally:
                loop.close()
            want = [json.dumps(tick(i)) for i in range(n)]       # (json.dumps keeps insertion order: the comparison is order-sensitive)
        return streamed == want and got == want
