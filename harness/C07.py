"""C07 — retry building blocks obey their algebra and bounds.

Shape of the argument
* boolean algebra (Engine S): ``retry_any``/``|``, ``retry_all``/``&``, ``stop_any``/``|``, ``stop_all``/``&`` are executed for real
  (real operator dispatch of CPython, incl. the reflected ``__ror__``/``__rand__`` reached with a plain callable on the left) over
  stub conditions that return SYMBOLIC bools and over the real built-in conditions; the verdict is compared with Python's own
  ``or``/``and`` of the parts, the combinator class the operator builds is checked, and every consulted part must have received
  the caller's arguments unchanged;
* sum (Engine S for the spellings, Engine T for the float kernel): ``wait_combine(...)``, ``a + b``, ``plain + b`` (reflected),
  ``sum([...])`` over stub strategies returning symbolic ints equal the sum, each part asked exactly once with the caller's
  ``(attempts, seed)``; over the reals, ``wait_combine`` of real built-in strategies (AST->z3 of the current source) equals the sum of
  the separately translated parts;
* returns / bounds (Engine T): every built-in wait strategy's ``__call__`` translated from the CURRENT source — (a) RETURNS: no
  path raises (``x ** k`` raises OverflowError when |x**k| > DBL_MAX) and no intermediate is non-finite; (b) the returned value is
  finite, >= 0 and inside the documented bounds (table ``doc_bounds`` below, written from the docstrings).  attempts is SYMBOLIC
  (``**`` becomes an exact case table over its declared range): 0..K with every parameter symbolic, 0..AMAX with exp_base fixed to
  the constructor default / 10 and every other parameter symbolic; chain / combine shapes: attempts 0..KC one by one;
* seed determinism (Engine T, 2-safety + Engine S plumbing): two evaluations with the same seed and parameters give the same
  value, where every read of the module-level ``random`` is a fresh unconstrained value (environment) and
  ``random.Random(seed).uniform(a, b)`` is the uninterpreted ``U(seed, draw#, a, b)``; on the real objects, with ``random`` of
  retry_policy replaced by a probe, a seeded call never touches the module-level generator and builds ``Random`` from exactly
  the given seed, through ``wait_chain``/``wait_combine``/``+`` nesting."""
from __future__ import annotations

import vlib.boot  # noqa: F401
from vlib.boot import B
from vlib.ob import obligation, smt_obligation
from vlib import h_retry as H

import workflows.retry_policy as rp
from workflows.retry_policy import (
    _RetryConditionBase, _StopConditionBase, _WaitStrategyBase, retry_all, retry_always, retry_any, retry_if_exception,
    retry_if_exception_cause_type, retry_if_exception_message, retry_if_exception_type, retry_if_not_exception_message,
    retry_if_not_exception_type, retry_never, retry_unless_exception_type, stop_after_attempt, stop_after_delay, stop_all, stop_any,
    stop_before_delay, stop_never, wait_chain, wait_combine, wait_exponential_jitter, wait_fixed, wait_full_jitter, wait_random,
    wait_random_exponential,
)

ENCODED = [
    "workflows.retry_policy:_RetryConditionBase.__and__",
    "workflows.retry_policy:_RetryConditionBase.__rand__",
    "workflows.retry_policy:_RetryConditionBase.__or__",
    "workflows.retry_policy:_RetryConditionBase.__ror__",
    "workflows.retry_policy:retry_any.__call__",
    "workflows.retry_policy:retry_all.__call__",
    "workflows.retry_policy:_StopConditionBase.__and__",
    "workflows.retry_policy:_StopConditionBase.__rand__",
    "workflows.retry_policy:_StopConditionBase.__or__",
    "workflows.retry_policy:_StopConditionBase.__ror__",
    "workflows.retry_policy:stop_any.__call__",
    "workflows.retry_policy:stop_all.__call__",
    "workflows.retry_policy:_WaitStrategyBase.__add__",
    "workflows.retry_policy:_WaitStrategyBase.__radd__",
    "workflows.retry_policy:wait_combine.__call__",
    "workflows.retry_policy:wait_chain.__call__",
    "workflows.retry_policy:wait_fixed.__call__",
    "workflows.retry_policy:wait_none.__init__",
    "workflows.retry_policy:wait_exponential.__init__",
    "workflows.retry_policy:wait_exponential.__call__",
    "workflows.retry_policy:wait_incrementing.__init__",
    "workflows.retry_policy:wait_incrementing.__call__",
    "workflows.retry_policy:wait_random.__init__",
    "workflows.retry_policy:wait_random.__call__",
    "workflows.retry_policy:wait_exponential_jitter.__init__",
    "workflows.retry_policy:wait_exponential_jitter.__call__",
    "workflows.retry_policy:wait_random_exponential.__init__",
    "workflows.retry_policy:wait_random_exponential.__call__",
    "workflows.retry_policy:wait_full_jitter",
    "workflows.retry_policy:_to_seconds",
]
ASSUMES = [
    "Engine S: conditions / strategies being combined are stubs returning symbolic bools / symbolic ints and recording their arguments "
    "(plus the real built-in conditions on a pool of 4 exceptions and small int limits); combinator classes, operators and CPython's "
    "operator dispatch are the real ones",
    "Engine T: Python float -> z3 Real, rounding ignored; x ** k raises OverflowError iff |x**k| > DBL_MAX (validated against CPython on "
    "every run, incl. at the threshold 2.0**1023 / 2.0**1024); parameters are float-valued numbers (not timedelta, not int-typed exp_base)",
    "documented validity of parameters (table doc_valid): wait/multiplier/exp_base/initial/jitter >= 0, 0 <= min <= max, max >= 0; "
    "wait_incrementing's start and increment may have either sign ('never going below zero')",
    "documented bounds (table doc_bounds, written from the docstrings; the specification, not code under test): wait_fixed = wait; "
    "wait_none = 0; wait_exponential in [min,max]; wait_incrementing in [0,max]; wait_random in [min,max]; wait_exponential_jitter in "
    "[min(initial*exp_base**k,max), min(that+jitter,max)]; wait_random_exponential/wait_full_jitter in [min, clamp(multiplier*exp_base**k,min,max)]; "
    "wait_chain inside the hull of its strategies' bounds; wait_combine inside the sum of its parts' bounds; where exp_base**k exceeds the double "
    "range the documented product multiplier*exp_base**k is read the IEEE way (+inf for multiplier > 0, 0 for multiplier = 0) — on the unchanged tree "
    "nothing returns there (KF-C07-1), so this only matters once an overflow guard exists",
    "random.Random(seed).uniform(a,b) = uninterpreted U(seed, draw#, a, b) lying between a and b; a read of the module-level generator is a "
    "fresh value constrained only to the range (environment); native replays of bound queries also try the extreme draws a, b, (a+b)/2, "
    "native replays of determinism models also run with the RNG values of the model",
    "python's `0 + x` / `sum()` dispatch (int.__add__ -> NotImplemented -> x.__radd__(0)) is mirrored by hand in the Engine-T spelling "
    "queries (3 lines, _py_add); Engine S executes the real dispatch",
]
OUTSIDE = [
    "parameters beyond |p| <= 1e300 or non-zero below 1e-300 (not doubles) (there start+increment*attempts and sums of parts saturate to inf on their own: e.g. "
    "wait_incrementing(increment=1e308)(2) == inf); the sum / determinism identities are decided for |p| <= 1e6",
    "attempts > K with a symbolic exp_base; attempts > AMAX; exp_base other than the default / 10 for attempts > K; for the exponential "
    "strategies attempts beyond the 275-range that contains the first overflowing attempt count (2.0: up to 1099, 10.0: up to 549 — beyond it "
    "every input is in KF-C07-1's class on this tree); negative attempts",
    "timedelta-typed parameters (_to_seconds conversion), int-typed exp_base/initial of wait_exponential_jitter (not converted to float by its __init__)",
    "rounding of float arithmetic (uniform() may return its upper end point); behaviour without a seed",
    "chains / sums of more than 3 strategies; user-defined conditions that raise",
]

K = B(8, 17)            # attempts symbolic in 0..K with every parameter (incl. exp_base) symbolic: exponential strategies (ranges of 9)
KC = B(3, 8)            # attempts 0..KC one by one with every parameter symbolic: chain / combine shapes
AMAX = B(1099, 2199)    # attempts SYMBOLIC in 0..AMAX (exp_base concrete where the strategy has one)
CHUNK = 275             # the case table of exp_base ** attempts is split into attempt ranges of this size (one query each)
KS = B(2, 6)            # attempts for the sum / determinism queries (attempts only selects the chain entry there)
WIDE = 10 ** 300        # parameter magnitude of the returns / bounds queries
NARROW = 10 ** 6        # ... of the sum / determinism queries (identities: magnitude plays no role; keeps models clear of float cancellation)

# ================================================================================================ Engine S: boolean algebra


class _RC(_RetryConditionBase):
    """Stub retry condition (environment): returns a fixed (symbolic) bool, records the error it was asked about."""

    def __init__(self, value, log, tag) -> None:
        self.value, self.log, self.tag = value, log, tag

    def __call__(self, error):
        self.log.append((self.tag, error))
        return self.value


class _PlainRC:
    """A retry condition that is a plain callable (no operator support of its own): reaches the reflected operators."""

    def __init__(self, inner) -> None:
        self.inner = inner

    def __call__(self, error):
        return self.inner(error)


class _SC(_StopConditionBase):
    def __init__(self, value, log, tag) -> None:
        self.value, self.log, self.tag = value, log, tag

    def __call__(self, attempts, elapsed_time, *, upcoming_sleep=0.0):
        self.log.append((self.tag, attempts, elapsed_time, upcoming_sleep))
        return self.value


class _PlainSC:
    def __init__(self, inner) -> None:
        self.inner = inner

    def __call__(self, attempts, elapsed_time, *, upcoming_sleep=0.0):
        return self.inner(attempts, elapsed_time, upcoming_sleep=upcoming_sleep)


NFORMS = 26


def _compose(form, ANY, ALL, a, b, c, pa, pb, v0, v1, v2):
    """(combined object, expected verdict by Python's own or/and, class the spelling must build).  a,b,c: parts with operator
    support; pa,pb: the same parts a,b wrapped as plain callables."""
    if form == 0:
        return ANY(a, b), (v0 or v1), ANY
    if form == 1:
        return ANY(a, b, c), (v0 or v1 or v2), ANY
    if form == 2:
        return a | b, (v0 or v1), ANY
    if form == 3:
        return pa | b, (v0 or v1), ANY  # reflected: b.__ror__(pa)
    if form == 4:
        return a | pb, (v0 or v1), ANY
    if form == 5:
        return (a | b) | c, (v0 or v1 or v2), ANY
    if form == 6:
        return a | (b | c), (v0 or v1 or v2), ANY
    if form == 7:
        return pa | (b | c), (v0 or v1 or v2), ANY  # reflected onto a composite
    if form == 8:
        return ANY(a, ANY(b, c)), (v0 or v1 or v2), ANY
    if form == 9:
        return ANY(pa, pb, c), (v0 or v1 or v2), ANY
    if form == 10:
        return ALL(a, b), (v0 and v1), ALL
    if form == 11:
        return ALL(a, b, c), (v0 and v1 and v2), ALL
    if form == 12:
        return a & b, (v0 and v1), ALL
    if form == 13:
        return pa & b, (v0 and v1), ALL  # reflected: b.__rand__(pa)
    if form == 14:
        return a & pb, (v0 and v1), ALL
    if form == 15:
        return (a & b) & c, (v0 and v1 and v2), ALL
    if form == 16:
        return a & (b & c), (v0 and v1 and v2), ALL
    if form == 17:
        return pa & (b & c), (v0 and v1 and v2), ALL
    if form == 18:
        return ALL(a, ALL(b, c)), (v0 and v1 and v2), ALL
    if form == 19:
        return ALL(pa, pb, c), (v0 and v1 and v2), ALL
    if form == 20:
        return (a & b) | c, ((v0 and v1) or v2), ANY
    if form == 21:
        return a & (b | c), (v0 and (v1 or v2)), ALL
    if form == 22:
        return (pa | b) & c, ((v0 or v1) and v2), ALL
    if form == 23:
        return pa & (b | c), (v0 and (v1 or v2)), ALL
    if form == 24:
        return ANY(a), v0, ANY
    return ALL(a), v0, ALL


@obligation(quick=90, thorough=240, what="retry_any / | / reflected | and retry_all / & / reflected & over 1-3 stub conditions returning symbolic bools: verdict == Python's or/and of "
                                         "the parts (26 spellings incl. nesting and mixed &,|); the operator builds the named combinator; every consulted part got the caller's error object, at most once",
            bounds={"operands": "1..3", "spellings": "26", "part verdicts": "symbolic bools"})
def ob_retry_algebra(form: int, v0: bool, v1: bool, v2: bool) -> bool:
    """
    pre: 0 <= form < NFORMS
    post: _
    """
    log: list = []
    a, b, c = _RC(v0, log, 0), _RC(v1, log, 1), _RC(v2, log, 2)
    comb, want, cls = _compose(form, retry_any, retry_all, a, b, c, _PlainRC(a), _PlainRC(b), v0, v1, v2)
    if type(comb) is not cls:
        return False
    err = ValueError("boom")
    got = comb(err)
    if not (got == want and isinstance(got, bool)):
        return False
    tags = [t for t, _ in log]
    return all(e is err for _, e in log) and len(set(tags)) == len(tags) and len(tags) >= 1


@obligation(quick=90, thorough=240, what="stop_any / | / reflected | and stop_all / & / reflected & over 1-3 stub stop conditions returning symbolic bools: verdict == or/and of the "
                                         "parts (26 spellings); the operator builds the named combinator; every consulted part got (attempts, elapsed_time, upcoming_sleep) unchanged "
                                         "(upcoming_sleep omitted -> 0.0), at most once",
            bounds={"operands": "1..3", "spellings": "26", "attempts/elapsed/sleep": "symbolic ints 0..1000"})
def ob_stop_algebra(form: int, v0: bool, v1: bool, v2: bool, att: int, el: int, sl: int, with_sleep: bool) -> bool:
    """
    pre: 0 <= form < NFORMS and 0 <= att <= 1000 and 0 <= el <= 1000 and 0 <= sl <= 1000
    post: _
    """
    log: list = []
    a, b, c = _SC(v0, log, 0), _SC(v1, log, 1), _SC(v2, log, 2)
    comb, want, cls = _compose(form, stop_any, stop_all, a, b, c, _PlainSC(a), _PlainSC(b), v0, v1, v2)
    if type(comb) is not cls:
        return False
    got = comb(att, el, upcoming_sleep=sl) if with_sleep else comb(att, el)
    if not (got == want and isinstance(got, bool)):
        return False
    tags = [x[0] for x in log]
    sleep_seen = sl if with_sleep else 0.0
    return all(x[1] == att and x[2] == el and x[3] == sleep_seen for x in log) and len(set(tags)) == len(tags) and len(tags) >= 1


def _error_pool(i):
    if i == 0:
        return ValueError("boom")
    if i == 1:
        return KeyError("k")
    if i == 2:
        e = RuntimeError("wrapped")
        e.__cause__ = KeyError("inner")
        return e
    return TimeoutError("boom")


N_RLEAF = 9
OFF_LO, OFF_HI, OFF_STEP = B((1, 4, 3), (0, 8, 1))  # partner of built-in i0 is built-in (i0 + off) % 9: quick off in {1, 4}, thorough every off


def _retry_leaf(i):
    if i == 0:
        return retry_if_exception_type(ValueError)
    if i == 1:
        return retry_if_not_exception_type((ValueError, TimeoutError))
    if i == 2:
        return retry_if_exception_message(message="boom")
    if i == 3:
        return retry_if_not_exception_message(match="^wr")
    if i == 4:
        return retry_if_exception_cause_type(KeyError)
    if i == 5:
        return retry_always()
    if i == 6:
        return retry_never()
    if i == 7:
        return retry_unless_exception_type(KeyError)
    return retry_if_exception(lambda e: len(str(e)) == 4)


@obligation(quick=150, thorough=300, partitions_quick=["sp <= 2", "sp >= 3"], partitions_thorough=[f"sp == {s}" for s in range(6)],
            what="the same algebra with the REAL built-in retry conditions as parts (each of the 9 built-ins as left operand with 2 partners, so each is also a right operand; "
                 "4 exceptions): retry_any/|/reflected | and retry_all/&/reflected & equal or/and of what the two parts answer on their own",
            bounds={"parts": "9 built-in conditions x 2 partners (thorough: all 81 pairs)", "exceptions": "pool of 4 (one with a __cause__ chain)", "spellings": "6"})
def ob_retry_algebra_builtin_parts(sp: int, i0: int, off: int, ei: int) -> bool:
    """
    pre: 0 <= sp <= 5 and 0 <= i0 < N_RLEAF and OFF_LO <= off <= OFF_HI and (off - OFF_LO) % OFF_STEP == 0 and 0 <= ei <= 3
    post: _
    """
    i1 = (i0 + off) % N_RLEAF
    a, b = _retry_leaf(i0), _retry_leaf(i1)
    err = _error_pool(ei)
    v0, v1 = _retry_leaf(i0)(err), _retry_leaf(i1)(err)
    if sp == 0:
        comb, want, cls = retry_any(a, b), (v0 or v1), retry_any
    elif sp == 1:
        comb, want, cls = a | b, (v0 or v1), retry_any
    elif sp == 2:
        comb, want, cls = _PlainRC(a) | b, (v0 or v1), retry_any
    elif sp == 3:
        comb, want, cls = retry_all(a, b), (v0 and v1), retry_all
    elif sp == 4:
        comb, want, cls = a & b, (v0 and v1), retry_all
    else:
        comb, want, cls = _PlainRC(a) & b, (v0 and v1), retry_all
    got = comb(err)
    return type(comb) is cls and isinstance(got, bool) and got == want


N_SLEAF = 4


def _stop_leaf(i):
    if i == 0:
        return stop_after_attempt(2)
    if i == 1:
        return stop_after_delay(2)
    if i == 2:
        return stop_before_delay(3)
    return stop_never()


@obligation(quick=150, thorough=300, partitions_quick=["sp <= 2", "sp >= 3"], partitions_thorough=[f"sp == {s}" for s in range(6)],
            what="the same algebra with the REAL built-in stop conditions as parts (stop_after_attempt(2), stop_after_delay(2), stop_before_delay(3), stop_never; pairs): "
                 "stop_any/|/reflected | and stop_all/&/reflected & equal or/and of what the two parts answer on their own",
            bounds={"attempts": "0..3", "elapsed": "0..3", "upcoming_sleep": "0..2", "spellings": "6"})
def ob_stop_algebra_builtin_parts(sp: int, i0: int, i1: int, att: int, el: int, sl: int) -> bool:
    """
    pre: 0 <= sp <= 5 and 0 <= i0 < N_SLEAF and 0 <= i1 < N_SLEAF and 0 <= att <= 3 and 0 <= el <= 3 and 0 <= sl <= 2
    post: _
    """
    # the built-in delay conditions compare with float(max_delay): enumerate the instants by explicit forks (int/real mixes are
    # inconclusive in CrossHair); the attempt counter stays symbolic
    el = H.fork_int(el, 0, 3)
    sl = H.fork_int(sl, 0, 2)
    a, b = _stop_leaf(i0), _stop_leaf(i1)
    v0 = _stop_leaf(i0)(att, el, upcoming_sleep=sl)
    v1 = _stop_leaf(i1)(att, el, upcoming_sleep=sl)
    if sp == 0:
        comb, want, cls = stop_any(a, b), (v0 or v1), stop_any
    elif sp == 1:
        comb, want, cls = a | b, (v0 or v1), stop_any
    elif sp == 2:
        comb, want, cls = _PlainSC(a) | b, (v0 or v1), stop_any
    elif sp == 3:
        comb, want, cls = stop_all(a, b), (v0 and v1), stop_all
    elif sp == 4:
        comb, want, cls = a & b, (v0 and v1), stop_all
    else:
        comb, want, cls = _PlainSC(a) & b, (v0 and v1), stop_all
    got = comb(att, el, upcoming_sleep=sl)
    return type(comb) is cls and isinstance(got, bool) and got == want


# ================================================================================================ Engine S: sum spellings


class _SW(_WaitStrategyBase):
    """Stub wait strategy (environment): returns a fixed symbolic int, records (attempts, seed)."""

    def __init__(self, delay, log, tag) -> None:
        self.delay, self.log, self.tag = delay, log, tag

    def __call__(self, attempts, *, seed=None):
        self.log.append((self.tag, attempts, seed))
        return self.delay


class _PlainW:
    def __init__(self, inner) -> None:
        self.inner = inner

    def __call__(self, attempts, *, seed=None):
        return self.inner(attempts, seed=seed)


N_WFORMS = 15


@obligation(quick=90, thorough=240, what="wait_combine(...), a + b, a + plain, plain + b (reflected), nested +, sum([...]) over 1-3 stub strategies returning symbolic ints: the "
                                         "delay is the sum of the parts' delays, every part is asked exactly once with the caller's (attempts, seed); + builds wait_combine; sum([a]) is a",
            bounds={"parts": "1..3", "spellings": "15", "delays": "symbolic ints -1000..1000", "attempts": "0..1000", "seed": "symbolic int or None"})
def ob_wait_combine_spellings(form: int, d0: int, d1: int, d2: int, k: int, seed: int, has_seed: bool) -> bool:
    """
    pre: 0 <= form < N_WFORMS and -1000 <= d0 <= 1000 and -1000 <= d1 <= 1000 and -1000 <= d2 <= 1000 and 0 <= k <= 1000
    post: _
    """
    log: list = []
    a, b, c = _SW(d0, log, 0), _SW(d1, log, 1), _SW(d2, log, 2)
    pa, pb = _PlainW(a), _PlainW(b)
    n = 3
    if form == 0:
        comb, n = wait_combine(a), 1
    elif form == 1:
        comb, n = wait_combine(a, b), 2
    elif form == 2:
        comb = wait_combine(a, b, c)
    elif form == 3:
        comb, n = a + b, 2
    elif form == 4:
        comb, n = a + pb, 2
    elif form == 5:
        comb, n = pa + b, 2  # reflected: b.__radd__(pa)
    elif form == 6:
        comb = (a + b) + c
    elif form == 7:
        comb = a + (b + c)
    elif form == 8:
        comb, n = sum([a, b]), 2
    elif form == 9:
        comb = sum([a, b, c])
    elif form == 10:
        comb, n = sum([a]), 1
        if comb is not a:
            return False
    elif form == 11:
        comb, n = sum([a, pb]), 2
    elif form == 12:
        comb = wait_combine(a, wait_combine(b, c))
    elif form == 13:
        comb = sum([a + b, c])
    else:
        comb = pa + (b + c)
    if form != 10 and type(comb) is not wait_combine:
        return False
    sd = seed if has_seed else None
    got = comb(k, seed=sd)
    want = d0 if n == 1 else (d0 + d1 if n == 2 else d0 + d1 + d2)
    if got != want:
        return False
    tags = sorted(x[0] for x in log)
    if tags != list(range(n)):
        return False
    for x in log:
        if x[1] != k:
            return False
        if has_seed:
            if x[2] != seed:
                return False
        elif x[2] is not None:
            return False
    return True


@obligation(quick=60, thorough=120,
            what="`+` / sum() build a NEW strategy and leave their operands alone: after z = x + y (x a wait_combine held in a variable, also via "
                 "sum([x, y]) and the reflected form) x still returns its own sum, z returns x + y, z is not x, and two sums derived from one "
                 "shared base are independent of each other",
            bounds={"parts": "stub strategies returning symbolic ints -1000..1000", "forms": "x + y / sum([x, y]) / plain + x / x + y twice from one base"})
def ob_wait_combine_operands_unchanged(form: int, d0: int, d1: int, d2: int, d3: int, k: int) -> bool:
    """
    pre: 0 <= form <= 3 and -1000 <= d0 <= 1000 and -1000 <= d1 <= 1000 and -1000 <= d2 <= 1000 and -1000 <= d3 <= 1000 and 0 <= k <= 1000
    post: _
    """
    log: list = []
    a, b, c, d = _SW(d0, log, 0), _SW(d1, log, 1), _SW(d2, log, 2), _SW(d3, log, 3)
    x = wait_combine(a, b)
    if form == 0:
        z = x + c
    elif form == 1:
        z = sum([x, c])
    elif form == 2:
        z = _PlainW(c) + x          # reflected: x.__radd__(plain)
    else:
        z = x + c
        z2 = x + d                  # a second sum from the same base
        if z2 is x or z2 is z or z2(k) != d0 + d1 + d3:
            return False
    if z is x:
        return False
    return x(k) == d0 + d1 and z(k) == d0 + d1 + d2 and x(k) == d0 + d1


# ================================================================================================ Engine S: seed plumbing


class _RngProbe:
    """Stands for the ``random`` module attribute of retry_policy for the duration of one obligation run: counts reads of the
    module-level generator, records the seed every ``Random(...)`` is built from.  The draws themselves are fixed (the low end)."""

    def __init__(self) -> None:
        self.module_reads = 0
        self.seeds: list = []
        self.seeded_draws = 0
        outer = self

        class _R:
            def __init__(self, *a, **kw) -> None:
                outer.seeds.append(a[0] if a else kw.get("x"))

            def uniform(self, lo, hi):
                outer.seeded_draws += 1
                return lo

        self.Random = _R

    def uniform(self, lo, hi):
        self.module_reads += 1
        return lo

    def random(self):
        self.module_reads += 1
        return 0.0


N_JIT = 9
KSEED = B(5, 8)


def _jittered(i):
    """(strategy, number of uniform draws one call makes from the third attempt on)."""
    if i == 0:
        return wait_random(0.5, 1.5), 1
    if i == 1:
        return wait_exponential_jitter(initial=1.0, exp_base=2.0, max=60.0, jitter=1.0), 1
    if i == 2:
        return wait_random_exponential(multiplier=1.0, exp_base=2.0, max=60.0, min=0.0), 1
    if i == 3:
        return wait_full_jitter(multiplier=1.0, exp_base=2.0, max=60.0), 1
    if i == 4:
        return wait_chain(wait_fixed(1.0), wait_fixed(2.0), wait_random(0.0, 1.0)), 1
    if i == 5:
        return wait_combine(wait_random(0.0, 1.0), wait_exponential_jitter(initial=1.0, exp_base=2.0, max=60.0, jitter=1.0)), 2
    if i == 6:
        return wait_combine(wait_fixed(1.0), wait_chain(wait_random_exponential(multiplier=1.0, exp_base=2.0, max=60.0, min=0.0))), 1
    if i == 7:
        return wait_fixed(1.0) + wait_random(0.0, 1.0), 1
    return sum([wait_random(0.0, 1.0), wait_chain(wait_random(0.0, 2.0)), wait_fixed(1.0)]), 2


@obligation(quick=90, thorough=240, what="real jittered strategies (9 shapes incl. wait_chain / wait_combine / + / sum nesting) with retry_policy's `random` replaced by a probe: a call with a "
                                         "seed never reads the module-level generator and builds every Random from exactly that seed (so the delay is a function of seed and parameters)",
            bounds={"seed": "any int (symbolic)", "attempts": "2..5 (thorough 2..8)", "parameters": "concrete (docs examples)"})
def ob_seed_reaches_rng(si: int, k: int, seed: int) -> bool:
    """
    pre: 0 <= si < N_JIT and 2 <= k <= KSEED
    post: _
    """
    k = H.fork_int(k, 2, KSEED)
    strat, ndraws = _jittered(si)
    probe = _RngProbe()
    saved = rp.random
    rp.random = probe
    try:
        strat(k, seed=seed)
        first = (probe.module_reads, list(probe.seeds), probe.seeded_draws)
        strat(k, seed=seed)
    finally:
        rp.random = saved
    if first[0] != 0 or probe.module_reads != 0:
        return False
    if first[2] != ndraws or len(first[1]) != ndraws or probe.seeded_draws != 2 * ndraws:
        return False
    return all(s is not None and s == seed for s in probe.seeds)


from vlib.h_tools import untraced as _untraced  # noqa: E402

_OV_MULT = [0, 0.0, 1, 0.5, 3]
_OV_BASE = [2, 2.0, 10, 1e200, 1.5]
_OV_ATT = [0, 1, 2, 1023, 1024, 1025, 1100, 5000]
_OV_MAX = [60.0, 5]


@obligation(quick=120, thorough=300, partitions_quick=[f"kind == {k}" for k in range(5)],
            what="the REAL exponential strategies where exp_base ** attempts leaves the float range (and just below it), with zero / fractional / "
                 "integer multipliers: the delay that comes back is a finite float (never nan or inf) inside [0, max] (+1 for the combination with "
                 "wait_fixed(1)), a zero multiplier gives exactly the lower clamp resp. a value in [0, jitter], and the same seed gives the same "
                 "delay twice - the float behaviour at the overflow edge that the real-arithmetic Engine-T encoding cannot represent",
            bounds={"strategies": "wait_exponential / wait_exponential_jitter / wait_random_exponential / jitter + wait_fixed(1) / retry_policy(wait=jitter).next",
                    "multiplier": str(_OV_MULT), "exp_base": str(_OV_BASE), "attempts": str(_OV_ATT), "max": str(_OV_MAX), "seed": "0..2"})
def ob_overflow_region_real(kind: int, mi: int, bi: int, ai: int, xi: int, seed: int) -> bool:
    """
    pre: 0 <= kind <= 4 and 0 <= mi < 5 and 0 <= bi < 5 and 0 <= ai < 8 and 0 <= xi < 2 and 0 <= seed <= 2
    post: _
    """
    kind, mi, bi = H.fork_int(kind, 0, 4), H.fork_int(mi, 0, 4), H.fork_int(bi, 0, 4)
    ai, xi, seed = H.fork_int(ai, 0, 7), H.fork_int(xi, 0, 1), H.fork_int(seed, 0, 2)
    with _untraced():          # CrossHair models random.Random.uniform as a fresh symbolic per call; the real generator is the subject
        return _overflow_case(kind, _OV_MULT[mi], _OV_BASE[bi], _OV_ATT[ai], _OV_MAX[xi], seed)


def _overflow_case(kind: int, m, b, k: int, mx, seed: int) -> bool:
    hi = float(mx)
    if kind == 0:
        strat = rp.wait_exponential(multiplier=m, exp_base=b, max=mx)
    elif kind == 1:
        strat = rp.wait_exponential_jitter(initial=m, exp_base=b, max=mx, jitter=1.0)
    elif kind == 2:
        strat = rp.wait_random_exponential(multiplier=m, exp_base=b, max=mx)
    else:
        strat = rp.wait_exponential_jitter(initial=m, exp_base=b, max=mx, jitter=1.0) + rp.wait_fixed(1.0)
        hi += 1.0
    if kind == 4:
        pol = rp.retry_policy(wait=strat, stop=rp.stop_after_attempt(10 ** 9))
        d1 = pol.next(0.0, max(k, 1), ValueError("x"), seed=seed)
        d2 = pol.next(0.0, max(k, 1), ValueError("x"), seed=seed)
    else:
        d1 = strat(k, seed=seed)
        d2 = strat(k, seed=seed)
    if d1 is None or d2 is None:
        return False
    if not (d1 == d1 and d1 != float("inf") and d1 != float("-inf")):
        return False                      # nan / inf
    if not (0.0 <= d1 <= hi) or d1 != d2:
        return False
    if m == 0:
        if kind == 0 and d1 != 0.0:
            return False
        if kind == 1 and not (0.0 <= d1 <= 1.0):
            return False
        if kind == 2 and d1 != 0.0:
            return False
    return True


# ================================================================================================ Engine T: documented side


def _leaf_specs():
    return [H.FixedSpec(), H.NoneSpec(), H.ExponentialSpec(), H.IncrementingSpec(), H.IncrementingNoMaxSpec(), H.RandomSpec(),
            H.ExpJitterSpec(), H.RandomExpSpec(), H.FullJitterSpec()]


def _composite_specs():
    return [
        H.ChainSpec([H.FixedSpec("c0_"), H.ExponentialSpec("c1_")]),
        H.ChainSpec([H.IncrementingSpec("c0_"), H.FixedSpec("c1_"), H.ExpJitterSpec("c2_")]),
        H.ChainSpec([H.RandomSpec("c0_"), H.RandomExpSpec("c1_")]),
        H.CombineSpec([H.FixedSpec("p0_"), H.IncrementingSpec("p1_")]),
        H.CombineSpec([H.ExponentialSpec("p0_"), H.RandomSpec("p1_")]),
        H.CombineSpec([H.ExpJitterSpec("p0_"), H.FullJitterSpec("p1_"), H.FixedSpec("p2_")]),
        H.CombineSpec([H.FixedSpec("p0_"), H.ChainSpec([H.FixedSpec("p1c0_"), H.ExponentialSpec("p1c1_")])]),
    ]


def _leaves(spec):
    if isinstance(spec, (H.ChainSpec, H.CombineSpec)):
        return [x for c in spec.children for x in _leaves(c)]
    return [spec]


def _has_base(leaf) -> bool:
    return "exp_base" in leaf.params


def doc_valid(spec, P):
    """Documented validity of the constructor parameters (z3 Bool terms)."""
    if isinstance(spec, (H.ChainSpec, H.CombineSpec)):
        return [c for ch in spec.children for c in doc_valid(ch, P)]
    r = lambda n: H.to_real(spec.p(P, n))  # noqa: E731
    if isinstance(spec, H.NoneSpec):
        return []
    if isinstance(spec, H.FixedSpec):
        return [r("wait") >= 0]
    if isinstance(spec, (H.ExponentialSpec, H.RandomExpSpec)):
        return [r("multiplier") >= 0, r("exp_base") >= 0, r("min") >= 0, r("min") <= r("max")]
    if isinstance(spec, H.IncrementingSpec):
        return [r("max") >= 0]
    if isinstance(spec, H.IncrementingNoMaxSpec):
        return []
    if isinstance(spec, H.RandomSpec):
        return [r("min") >= 0, r("min") <= r("max")]
    if isinstance(spec, H.ExpJitterSpec):
        return [r("initial") >= 0, r("exp_base") >= 0, r("max") >= 0, r("jitter") >= 0]
    raise H.Untranslatable(f"no validity table for {spec.name}")


def _exp_term_capped(m, base, k, cap, tr):
    """min(m * base**k, cap) of the docstrings.  Where base**k exceeds the double range the documented product is read the IEEE way:
    +inf for m > 0 (the capped term is cap), and 0 for m = 0."""
    import z3

    pw = tr.power(base, k)
    return z3.If(H.finite(pw), H.zmin(m * pw, cap), z3.If(m > 0, cap, H.zmin(m, cap)))


def doc_bounds(spec, k, P, tr):
    """Documented bounds (lower, upper | None) of the delay for attempts = k — from the docstrings of retry_policy.py."""
    import z3

    r = lambda n: H.to_real(spec.p(P, n))  # noqa: E731
    zero = z3.RealVal(0)
    if isinstance(spec, H.ChainSpec):  # 'use a different wait strategy for each attempt': the delay is one of the strategies' delays
        bs = [doc_bounds(c, k, P, tr) for c in spec.children]
        lo = bs[0][0]
        for b_ in bs[1:]:
            lo = H.zmin(lo, b_[0])
        if any(b_[1] is None for b_ in bs):
            return lo, None
        hi = bs[0][1]
        for b_ in bs[1:]:
            hi = H.zmax(hi, b_[1])
        return lo, hi
    if isinstance(spec, H.CombineSpec):  # 'summing their delays'
        bs = [doc_bounds(c, k, P, tr) for c in spec.children]
        lo = bs[0][0]
        for b_ in bs[1:]:
            lo = lo + b_[0]
        if any(b_[1] is None for b_ in bs):
            return lo, None
        hi = bs[0][1]
        for b_ in bs[1:]:
            hi = hi + b_[1]
        return lo, hi
    if isinstance(spec, H.NoneSpec):
        return zero, zero
    if isinstance(spec, H.FixedSpec):
        return r("wait"), r("wait")
    if isinstance(spec, H.ExponentialSpec):  # 'clamped between min and max'
        return r("min"), r("max")
    if isinstance(spec, H.IncrementingSpec):  # 'capped by max and never going below zero'
        return zero, r("max")
    if isinstance(spec, H.IncrementingNoMaxSpec):
        return zero, None
    if isinstance(spec, H.RandomSpec):  # 'uniformly sampled from [min, max]'
        return r("min"), r("max")
    if isinstance(spec, H.ExpJitterSpec):  # 'base delay grows exponentially and a random value in [0, jitter] is added on top', max
        base = _exp_term_capped(r("initial"), spec.p(P, "exp_base"), k, r("max"), tr)
        return base, H.zmin(base + r("jitter"), r("max"))
    if isinstance(spec, H.RandomExpSpec):  # 'sampled between min and the exponential upper bound for the current attempt'
        return r("min"), H.zmax(r("min"), _exp_term_capped(r("multiplier"), spec.p(P, "exp_base"), k, r("max"), tr))
    raise H.Untranslatable(f"no bounds table for {spec.name}")


def pow_overflow(spec, k, P, tr):
    """exp_base ** attempts exceeds the double range, for an exponential strategy of the tree (harness-side term, independent
    of the translated code): the class of known finding KF-C07-1."""
    import z3

    terms = [z3.Not(H.finite(tr.power(lf.p(P, "exp_base"), k))) for lf in _leaves(spec) if _has_base(lf)]
    return z3.Or(*terms) if terms else z3.BoolVal(False)


class Case:
    """One (strategy shape, attempts) family member: the spec, the translator-side parameter values P (z3 Real consts or concrete
    floats), the attempts term, and what goes into the witness."""

    def __init__(self, label, spec, fixed=None, ktag="", k=None, krange=None, pmax=None) -> None:
        import z3

        self.label, self.spec, self.fixed, self.ktag, self.krange = label, spec, dict(fixed or {}), ktag, krange
        self.pmax = WIDE if pmax is None else pmax
        self.module_reads = 0
        self.P = {n: (float(self.fixed[n]) if n in self.fixed else z3.Real(n)) for n in spec.all_params()}
        self.k = k
        self.seed = z3.Int("seed")

    def name(self, mode: str) -> str:
        return f"{mode}:{self.label}:{self.ktag}"

    def open(self):
        """(translator, translated object, CallSummary of obj(k, seed=seed), seeded draws of that call)"""
        tr = H.Translator()
        if self.krange is not None:
            tr.declare_int_range(self.k, *self.krange)
        obj = self.spec.build(tr, self.P)
        mark = len(tr.seeded_draws)
        summ = H.CallSummary(tr.call(obj, self.k, seed=self.seed))
        self.module_reads = len(tr.module_draws)  # reads of the module-level generator although a seed was given
        return tr, obj, summ, tr.seeded_draws[mark:]

    def assumptions(self, tr):
        import z3

        w = z3.RealVal(self.pmax)
        t = 1 / z3.RealVal(WIDE)  # a double is 0 or at least ~1e-308 in magnitude: models below that are not inputs of the real code
        out = [z3.And(v >= -w, v <= w, z3.Or(v == 0, v >= t, v <= -t)) for v in self.P.values() if H.is_z3(v)]
        out += doc_valid(self.spec, self.P)
        if self.krange is not None:
            out += [self.k >= self.krange[0], self.k <= self.krange[1]]
        return out + list(tr.axioms)

    def variables(self, tr, extra=None):
        import z3

        v = {n: (x if H.is_z3(x) else H.to_real(x)) for n, x in self.P.items()}
        v["k"] = self.k if H.is_z3(self.k) else z3.IntVal(self.k)
        v["seed"] = self.seed
        v["pow_overflow"] = pow_overflow(self.spec, self.k, self.P, tr)
        v.update(extra or {})
        return v


def _default_of(cls_name: str, param: str) -> float:
    import inspect

    return float(inspect.signature(getattr(rp, cls_name)).parameters[param].default)


def _exp_specs():
    """the strategies that compute exp_base ** attempts"""
    return [H.ExponentialSpec(), H.ExpJitterSpec(), H.RandomExpSpec(), H.FullJitterSpec()]


def _param_cases(specs, kmax):
    return [Case(H.spec_label(s), s, ktag=f"k={i}", k=i) for s in specs for i in range(0, kmax + 1)]


def _exp_param_cases():
    """exponential strategies, EVERY parameter symbolic (exp_base too), attempts symbolic in 0..K: the case table of ** holds the
    monomials exp_base**0 .. exp_base**K (ranges of 9 attempts per query)."""
    import z3

    k = z3.Int("k")
    return [Case(H.spec_label(s), s, ktag=f"k={lo}..{min(lo + 8, K)}", k=k, krange=(lo, min(lo + 8, K))) for s in _exp_specs() for lo in range(0, K + 1, 9)]


def _chunks():
    return [(lo, min(lo + CHUNK - 1, AMAX)) for lo in range(0, AMAX + 1, CHUNK)]


def _range_cases():
    """attempts symbolic: strategies without ** over the whole range 0..AMAX in one query; exponential strategies with a concrete
    exp_base (constructor default; 10 for wait_exponential, thorough: also for wait_exponential_jitter; wait_full_jitter and one wait_combine
    shape in the thorough tier only), one query per attempt range of CHUNK values (exact case table of **), up to
    and including the range that contains the first attempt count whose power leaves the double range (2.0: 1024, 10.0: 309)."""
    from fractions import Fraction

    import z3

    out = []
    k = z3.Int("k")
    for mk in (H.FixedSpec, H.NoneSpec, H.IncrementingSpec, H.IncrementingNoMaxSpec, H.RandomSpec):
        s = mk()
        out.append(Case(H.spec_label(s), s, ktag=f"k=0..{AMAX}", k=k, krange=(0, AMAX)))
    for lo, hi in _chunks():
        tag = f"k={lo}..{hi}"
        for mk in (H.ExponentialSpec, H.ExpJitterSpec, H.RandomExpSpec) + B((), (H.FullJitterSpec,)):
            s0 = mk()
            for base in [_default_of(s0.name, "exp_base")] + ([10.0] if mk in (H.ExponentialSpec,) + B((), (H.ExpJitterSpec,)) else []):
                if Fraction(base) ** lo > Fraction(H.DBL_MAX_F):
                    continue  # base ** k is out of range for EVERY k of this attempt range: nothing returns, nothing to bound (and all of it is KF-C07-1's class)
                s = mk()
                out.append(Case(f"{s.name}[exp_base={base}]", s, fixed={"exp_base": base}, ktag=tag, k=k, krange=(lo, hi)))
        if Fraction(2) ** lo > Fraction(H.DBL_MAX_F) or not vlib.boot.THOROUGH:
            continue
        s = H.CombineSpec([H.IncrementingSpec("p0_"), H.ExponentialSpec("p1_")])
        out.append(Case(H.spec_label(s) + "[exp_base=2.0]", s, fixed={"p1_exp_base": 2.0}, ktag=tag, k=k, krange=(lo, hi)))
    return out


def _all_cases():
    return _exp_param_cases() + _range_cases() + _param_cases(_composite_specs(), KC)


# ------------------------------------------------------------------------------------------------ native side


class _EnvRandom:
    """Native replay: the RNG as environment — ``uniform(a, b)`` returns a fixed point of [a, b] (mode 0: a, 1: b, 2: midpoint)."""

    def __init__(self, mode: int) -> None:
        self.mode = mode
        outer = self

        class _R:
            def __init__(self, *a, **kw) -> None:
                pass

            def uniform(self, a, b):
                return outer.uniform(a, b)

        self.Random = _R

    def uniform(self, a, b):
        return a if self.mode == 0 else (b if self.mode == 1 else a + (b - a) / 2)


class _ModelRandom:
    """Native replay of a determinism model: the RNG as environment with the values the solver chose — ``Random(seed).uniform`` returns
    the model's value of U(seed, draw#, a, b) (the same list in both runs: it is a function of the seed), the module-level ``uniform``
    returns the model's value of that read (a different list per run).  Values are clipped into [a, b]."""

    def __init__(self, seeded, module) -> None:
        self.seeded, self.module = list(seeded), list(module)
        outer = self

        class _R:
            def __init__(self, *a, **kw) -> None:
                pass

            def uniform(self, a, b):
                return outer._next(outer.seeded, a, b)

        self.Random = _R

    @staticmethod
    def _next(vals, a, b):
        lo, hi = min(a, b), max(a, b)
        v = vals.pop(0) if vals else lo
        return min(max(float(v), lo), hi)

    def uniform(self, a, b):
        return self._next(self.module, a, b)


def _native_calls(spec, V, k: int, seed: int, env_draws: bool):
    """Results of the REAL strategy natively: with the real RNG and (env_draws) with the extreme draws."""
    real = spec.real(V)
    out = [real(k, seed=seed)]
    if env_draws and spec.jittered:
        for mode in (0, 1, 2):
            saved = rp.random
            rp.random = _EnvRandom(mode)
            try:
                out.append(spec.real(V)(k, seed=seed))
            finally:
                rp.random = saved
    return out


def _native_bounds(spec, V, k: int):
    """The documented bounds evaluated exactly (Fractions) on concrete parameters."""
    tr = H.Translator()
    lo, hi = doc_bounds(spec, k, dict(V), tr)
    return H.concretize(lo, {}), (None if hi is None else H.concretize(hi, {}))


def _within(r: float, lo, hi) -> bool:
    import math

    if not isinstance(r, (int, float)) or isinstance(r, bool) or not math.isfinite(r):
        return False
    tol = 1e-9
    if r < -tol:
        return False
    if r < float(lo) - tol * max(1.0, abs(float(lo))):
        return False
    return hi is None or r <= float(hi) + tol * max(1.0, abs(float(hi)))


def _replay(spec, mode: str):
    def run(w) -> bool:
        import random as _random

        V = H.witness_values(spec, w)
        k, seed = int(w["k"]), int(w.get("seed", 0) or 0)
        if mode == "returns":
            r = spec.real(V)(k, seed=seed)  # an exception = does not hold (recorded by the caller)
            return r == r
        if mode == "bounds":
            lo, hi = _native_bounds(spec, V, k)
            return all(_within(r, lo, hi) for r in _native_calls(spec, V, k, seed, True))
        if mode == "det":
            st = _random.getstate()
            try:
                _random.seed(12345)
                r1 = spec.real(V)(k, seed=seed)
                _random.seed(54321)
                r2 = spec.real(V)(k, seed=seed)
            finally:
                _random.setstate(st)
            if r1 != r2:
                return False
            # the same two evaluations with the RNG values of the solver's model (the generator is environment)
            sd = [float(H.frac(w[n])) for n in sorted((n for n in w if n.startswith("sd_")), key=lambda n: int(n[3:]))]
            out = []
            for run_ in ("m1_", "m2_"):
                md = [float(H.frac(w[n])) for n in sorted((n for n in w if n.startswith(run_)), key=lambda n: int(n[3:]))]
                saved = rp.random
                rp.random = _ModelRandom(sd, md)
                try:
                    out.append(spec.real(V)(k, seed=seed))
                finally:
                    rp.random = saved
            return out[0] == out[1]
        raise KeyError(mode)

    return run


# ------------------------------------------------------------------------------------------------ translation validation

_TV = {
    "wait": [2.5, 0.0, 7.0], "multiplier": [1.0, 0.5, 3.0], "exp_base": [2.0, 1.5, 1e200], "max": [60.0, 10.0, 1e6], "min": [0.0, 1.0, 2.0],
    "start": [1.0, -3.0, 0.0], "increment": [2.0, 0.5, -1.0], "initial": [1.0, 0.1, 5.0], "jitter": [1.0, 0.0, 2.5],
}


def _tv_point(case, tr, summ, draws, V, kval, seedval) -> None:
    """encoding evaluated on one concrete input == the real strategy in CPython (value, or OverflowError <-> raises)."""
    import random as _random
    from fractions import Fraction

    import z3

    spec = case.spec
    if case.module_reads:
        return  # the seeded call reads the module-level generator (environment): no native value to compare with; ob_seed_determinism reports it
    pairs = [(case.P[n], z3.RealVal(str(Fraction(V[n])))) for n in spec.all_params() if H.is_z3(case.P[n])]
    pairs.append((case.seed, z3.IntVal(seedval)))
    if H.is_z3(case.k):
        pairs.append((case.k, z3.IntVal(kval)))
    draw_pairs = []  # the real generator's value for every seeded draw of this call
    for u in draws:
        ui = z3.substitute(u, *pairs)
        us = z3.simplify(ui)
        a, b = H.concretize(us.arg(2), {}), H.concretize(us.arg(3), {})
        if not (isinstance(a, Fraction) and isinstance(b, Fraction)):
            raise RuntimeError(f"translation validation: non-ground draw bounds for {case.label}")
        rng = _random.Random(seedval)
        rv = None
        for _ in range(us.arg(1).as_long() + 1):
            rv = rng.uniform(float(a), float(b))
        draw_pairs.append((ui, z3.RealVal(str(Fraction(rv)))))

    def ground(t):
        t = z3.substitute(t, *pairs)
        return z3.simplify(z3.substitute(t, *draw_pairs)) if draw_pairs else z3.simplify(t)

    enc_raises = ground(z3.Or(summ.raises, summ.diverges))
    try:
        native = spec.real(V)(kval, seed=seedval)
        nat_raises = False
    except OverflowError:
        native, nat_raises = None, True
    if not (z3.is_true(enc_raises) or z3.is_false(enc_raises)) or z3.is_true(enc_raises) != nat_raises:
        raise RuntimeError(f"translation validation FAILED (raise): {case.label} {V} k={kval}: encoding raises={enc_raises} cpython raises={nat_raises}")
    if nat_raises:
        return
    val = ground(summ.value)
    got = H.concretize(val, {})
    if not H.close_to(got, native):
        raise RuntimeError(f"translation validation FAILED (value): {case.label} {V} k={kval} seed={seedval}: encoding={got} cpython={native}")


def _translation_validation() -> int:
    """Every run: (a) the literal cases of the package's own tests, (b) a grid of concrete inputs per strategy shape incl. an
    overflowing one, (c) the case-table power at the CPython overflow threshold (2.0**1023 returns, 2.0**1024 raises)."""
    try:
        n = H.validate_on_package_tests(H.Translator(), skip_module_reads=True)["validated"]
    except H.Untranslatable:
        n = 0  # a shape used by the package tests is outside the translator: the queries about it fail closed below
    for spec in _leaf_specs() + _composite_specs():
        for kval in (0, 1, 3, 7):
            case = Case(H.spec_label(spec), spec, k=kval)
            try:
                tr, _obj, summ, draws = case.open()
            except H.Untranslatable:
                continue  # fail closed elsewhere: the queries about this shape are recorded as untranslatable
            for vi in range(3):
                V = {p: _TV[p[len(lf.prefix):]][vi] for lf in _leaves(spec) for p in lf.all_params()}
                _tv_point(case, tr, summ, draws, V, kval, 7 + vi)
                n += 1
    for case in _exp_param_cases():
        try:
            tr, _obj, summ, draws = case.open()
        except H.Untranslatable:
            continue
        lo, hi = case.krange
        for vi in range(3):
            V = {p: _TV[p][vi] for p in case.spec.all_params()}
            for kval in sorted({lo, min(lo + 3, hi), hi}):
                _tv_point(case, tr, summ, draws, V, kval, 5 + vi)
                n += 1
    for case in _range_cases():
        try:
            tr, _obj, summ, draws = case.open()
        except H.Untranslatable:
            continue
        V = {p: (case.fixed[p] if p in case.fixed else _TV[p[len(lf.prefix):]][0]) for lf in _leaves(case.spec) for p in lf.all_params()}
        for kval in (0, 1, 308, 309, 1023, 1024, AMAX):
            if case.krange[0] <= kval <= case.krange[1]:
                _tv_point(case, tr, summ, draws, V, kval, 11)
                n += 1
    return n


# ================================================================================================ Engine T: obligations


def _band_free(case, tr):
    """A model with exp_base**k inside (DBL_MAX, 2*DBL_MAX) may round back into range in IEEE arithmetic (rounding is outside the
    encoding): witnesses are looked for outside that band first (check_robust's margin query)."""
    import z3

    pws = [tr.power(lf.p(case.P, "exp_base"), case.k) for lf in _leaves(case.spec) if _has_base(lf)]
    return [z3.Or(pw <= H.DBL_MAX, pw >= 2 * H.DBL_MAX) for pw in pws]


def _open(ctx, case, mode):
    try:
        return case.open()
    except H.Untranslatable as e:
        H.untranslatable(ctx, case.name(mode), e)
        return None


@smt_obligation(quick=120, thorough=400,
                what="every built-in wait strategy RETURNS: no path of __call__ (AST->z3 from the current source) raises — in particular exp_base ** attempts does not leave "
                     "the double range (CPython raises OverflowError there) — and no intermediate value is non-finite",
                bounds={"parameters": "reals, documented validity, |p| <= 1e300", "attempts": "symbolic 0..AMAX (strategies without **: any parameters; exponential ones: exp_base = "
                        "constructor default / 10); symbolic 0..K with exp_base symbolic too; 0..KC one by one for 7 chain/combine shapes", "K": K, "KC": KC, "AMAX": AMAX})
def ob_wait_returns(ctx):
    import z3

    n_tv = _translation_validation()
    for case in _all_cases():
        su = _open(ctx, case, "returns")
        if su is None:
            continue
        tr, _obj, summ, _draws = su
        neg = z3.Or(summ.raises, summ.diverges)
        H.check_robust(ctx, case.name("returns"), assumptions=case.assumptions(tr), neg_exact=neg, neg_margin=z3.And(neg, *_band_free(case, tr)),
                       variables=case.variables(tr), replay=_replay(case.spec, "returns"), note=f"translation validated on {n_tv} concrete inputs")


def _bounds_queries(ctx, cases) -> None:
    import z3

    n_tv = _translation_validation()
    for case in cases:
        su = _open(ctx, case, "bounds")
        if su is None:
            continue
        tr, _obj, summ, _draws = su
        try:
            lo, hi = doc_bounds(case.spec, case.k, case.P, tr)
        except H.Untranslatable as e:
            H.untranslatable(ctx, case.name("bounds"), e)
            continue
        v = summ.value
        zero = z3.RealVal(0)
        exact = [z3.Not(H.finite(v)), v < zero, v < lo]
        margin = [v > H.DBL_MAX * 2, H.clearly_less(v, zero), H.clearly_less(v, lo)]
        if hi is not None:
            exact.append(v > hi)
            margin.append(H.clearly_less(hi, v))
        H.check_robust(ctx, case.name("bounds"), assumptions=case.assumptions(tr) + [z3.Not(summ.raises), z3.Not(summ.diverges)],
                       neg_exact=z3.Or(*exact), neg_margin=z3.And(z3.Or(*margin), *_band_free(case, tr)), variables=case.variables(tr), replay=_replay(case.spec, "bounds"),
                       note=f"translation validated on {n_tv} concrete inputs")


@smt_obligation(quick=120, thorough=400,
                what="whenever a built-in wait strategy returns, the delay is finite, >= 0 and inside its documented bounds (min/max clamps, [0,max], [min, exponential upper "
                     "bound], base..base+jitter capped by max) for every draw of the RNG inside its range",
                bounds={"parameters": "reals, documented validity, |p| <= 1e300", "attempts": "symbolic 0..AMAX (strategies without **: any parameters; exponential ones: exp_base = "
                        "constructor default / 10); symbolic 0..K with exp_base symbolic too", "K": K, "AMAX": AMAX})
def ob_wait_bounds(ctx):
    _bounds_queries(ctx, _exp_param_cases() + _range_cases())


@smt_obligation(quick=120, thorough=400,
                what="wait_chain / wait_combine over built-in strategies (7 shapes, 2-3 parts, nested): the delay is finite, >= 0, inside the hull (chain) / the sum (combine) of the "
                     "parts' documented bounds",
                bounds={"parameters": "reals, documented validity, |p| <= 1e300", "attempts": "0..KC", "KC": KC})
def ob_wait_bounds_composed(ctx):
    _bounds_queries(ctx, _param_cases(_composite_specs(), KC))


def _part_sets():
    return [
        [H.FixedSpec("p0_"), H.FixedSpec("p1_")],
        [H.FixedSpec("p0_"), H.IncrementingSpec("p1_")],
        [H.ExponentialSpec("p0_"), H.RandomSpec("p1_")],
        [H.FixedSpec("p0_"), H.ExpJitterSpec("p1_"), H.RandomExpSpec("p2_")],
        [H.RandomSpec("p0_"), H.RandomSpec("p1_")],
        [H.FixedSpec("p0_"), H.ChainSpec([H.FixedSpec("p1c0_"), H.IncrementingNoMaxSpec("p1c1_")])],
        [H.IncrementingSpec("p0_"), H.NoneSpec("p1_"), H.FullJitterSpec("p2_")],
    ]


def _py_add(tr, x, y):
    """CPython's binary + between the values the spelling queries use: a strategy object on the left -> its __add__; the int 0
    on the left (sum()'s start value) -> int.__add__ gives NotImplemented -> the right operand's __radd__."""
    if isinstance(x, H.SymObj):
        return tr._only_plain(tr.call_method(x, "__add__", [y], {}), "__add__")
    return tr._only_plain(tr.call_method(y, "__radd__", [x], {}), "__radd__")


def _spell(tr, parts, spelling: str):
    if spelling == "combine":
        return tr.construct("wait_combine", *parts)
    acc = parts[0] if spelling == "add" else 0  # 'sum': sum([...]) starts from the int 0
    for p in (parts[1:] if spelling == "add" else parts):
        acc = _py_add(tr, acc, p)
    return acc


def _real_spell(parts, spelling: str):
    if spelling == "combine":
        return wait_combine(*parts)
    if spelling == "sum":
        return sum(parts)
    acc = parts[0]
    for p in parts[1:]:
        acc = acc + p
    return acc


def _replay_sum(specs, spelling: str):
    def run(w) -> bool:
        V = {}
        for s in specs:
            V.update(H.witness_values(s, w))
        k, seed = int(w["k"]), int(w.get("seed", 0) or 0)
        got = _real_spell([s.real(V) for s in specs], spelling)(k, seed=seed)
        want = sum(s.real(V)(k, seed=seed) for s in specs)
        return abs(got - want) <= 1e-9 * max(1.0, abs(want))

    return run


def _sum_label(specs) -> str:
    return "+".join(H.spec_label(s) for s in specs)


@smt_obligation(quick=120, thorough=300,
                what="over the reals: wait_combine(parts) / a + b (+ c) / sum([parts]) of real built-in strategies (AST->z3 of wait_combine.__call__, __add__, __radd__ and the "
                     "parts) returns exactly the sum of the parts' own delays for the same (attempts, seed), and returns whenever the parts do",
                bounds={"parts": "2..3 built-in strategies (7 sets, incl. jittered and a chain)", "attempts": "KS (0..KS when a chain is among the parts)", "KS": KS, "parameters": "reals, documented validity, |p| <= 1e6"})
def ob_wait_combine_is_sum(ctx):
    import z3

    n_tv = _translation_validation()
    for specs in _part_sets():
        whole = H.CombineSpec(specs)
        ks = range(0, KS + 1) if any(isinstance(x, H.ChainSpec) for x in specs) else (KS,)  # attempts only selects the chain entry
        for spelling in ("combine", "add", "sum"):
            for k in ks:
                case = Case(_sum_label(specs), whole, ktag=f"{spelling}:k={k}", k=k, pmax=NARROW)
                name = case.name("sum")
                try:
                    tr = H.Translator()
                    parts = [s.build(tr, case.P) for s in specs]
                    psum = [H.CallSummary(tr.call(p, k, seed=case.seed)) for p in parts]
                    obj = _spell(tr, parts, spelling)
                    if not (isinstance(obj, H.SymObj) and obj.cls == "wait_combine"):
                        raise H.Untranslatable(f"{spelling} did not build a wait_combine: {obj!r}")
                    summ = H.CallSummary(tr.call(obj, k, seed=case.seed))
                except H.Untranslatable as e:
                    H.untranslatable(ctx, name, e)
                    continue
                total = psum[0].value
                for s in psum[1:]:
                    total = total + s.value
                parts_ok = [z3.Not(z3.Or(s.raises, s.diverges)) for s in psum] + [H.finite(s.value) for s in psum]
                H.check_robust(ctx, name, assumptions=case.assumptions(tr) + parts_ok,
                               neg_exact=z3.Or(summ.raises, summ.diverges, summ.value != total),
                               neg_margin=z3.Or(summ.raises, summ.diverges, H.differs(summ.value, total)),
                               variables=case.variables(tr), replay=_replay_sum(specs, spelling), note=f"translation validated on {n_tv} concrete inputs")


@smt_obligation(quick=120, thorough=300,
                what="2-safety over the translated __call__: two evaluations with the same parameters, attempts and (non-None) seed give the same delay, where each read of the "
                     "module-level random generator is a fresh value and Random(seed).uniform is the uninterpreted U(seed, draw#, a, b) — i.e. the delay is a function of "
                     "seed and parameters only (9 strategies + 7 chain/combine shapes)",
                bounds={"attempts": "KS (0..KS for chain / combine shapes)", "KS": KS, "seed": "any int", "parameters": "reals, documented validity, |p| <= 1e6"})
def ob_seed_determinism(ctx):
    import z3

    n_tv = _translation_validation()
    for spec in _leaf_specs() + _composite_specs():
        for k in (range(0, KS + 1) if isinstance(spec, (H.ChainSpec, H.CombineSpec)) else (KS,)):
            case = Case(H.spec_label(spec), spec, ktag=f"k={k}", k=k, pmax=NARROW)
            name = case.name("det")
            try:
                tr = H.Translator()
                obj = spec.build(tr, case.P)
                s1 = H.CallSummary(tr.call(obj, k, seed=case.seed))
                n_sd, n_md = len(tr.seeded_draws), len(tr.module_draws)
                obj2 = spec.build(tr, case.P)  # a second, separately constructed instance with the same parameters
                s2 = H.CallSummary(tr.call(obj2, k, seed=case.seed))
            except H.Untranslatable as e:
                H.untranslatable(ctx, name, e)
                continue
            if spec.jittered and not isinstance(spec, (H.ChainSpec, H.CombineSpec)) and not tr.seeded_draws:
                H.untranslatable(ctx, name, H.Untranslatable("jittered strategy made no seeded draw: the encoding does not see its RNG"))
                continue
            ctx.check(name, assumptions=case.assumptions(tr) + [z3.Not(z3.Or(s1.raises, s1.diverges, s2.raises, s2.diverges))],
                      negated_property=s1.value != s2.value,
                      variables=case.variables(tr, dict([("module_rng_reads", z3.IntVal(len(tr.module_draws)))]
                                                            + [(f"sd_{i}", t) for i, t in enumerate(tr.seeded_draws[:n_sd])]
                                                            + [(f"m1_{i}", t) for i, t in enumerate(tr.module_draws[:n_md])]
                                                            + [(f"m2_{i}", t) for i, t in enumerate(tr.module_draws[n_md:])])), replay=_replay(spec, "det"),
                      note=f"reads of the module-level generator in the two evaluations: {len(tr.module_draws)}; seeded draws: {len(tr.seeded_draws)}; "
                           f"translation validated on {n_tv} concrete inputs")


# ================================================================================================ replay of recorded witnesses


def replay_known(name, witness):
    """name = 'ob_xxx.<mode>:<label>:<tag>' (a replay file) or 'ob_xxx' (known finding; the witness carries 'query')."""
    q = name.split(".", 1)[1] if "." in name else witness.get("query")
    parts = q.split(":")
    mode, label = parts[0], parts[1]
    if mode == "sum":
        for specs in _part_sets():
            if _sum_label(specs) == label:
                return _replay_sum(specs, parts[2])(witness)
        raise KeyError(label)
    for case in _all_cases():
        if case.label == label:
            return _replay(case.spec, mode)(witness)
    raise KeyError(label)


# ------------------------------------------------------------------------------------------------ two conditions of the SAME kind
@obligation(quick=90, thorough=200, partitions_quick=[f"kind == {k}" for k in range(4)],
            what="| and & (and retry_any / retry_all) of two built-in exception-TYPE conditions of the same kind over different types - incl. the "
                 "negated kinds, where not-A or not-B is not not-(A or B): the combination answers or / and of what the two answer on their own",
            bounds={"kinds": "retry_if_exception_type / retry_if_not_exception_type / retry_unless_exception_type / retry_if_exception_cause_type",
                    "types": "(ValueError) vs (KeyError) / (KeyError, TimeoutError)", "exceptions": "pool of 4", "spellings": 4})
def ob_same_kind_type_conditions(kind: int, wide: bool, ei: int, sp: int) -> bool:
    """
    pre: 0 <= kind <= 3 and 0 <= ei <= 3 and 0 <= sp <= 3
    post: _
    """
    def _fork(i: int, hi: int) -> int:
        for v in range(hi):
            if i == v:
                return v
        return hi

    kind, ei, sp = _fork(kind, 3), _fork(ei, 3), _fork(sp, 3)
    wide = True if wide else False
    mk = [retry_if_exception_type, retry_if_not_exception_type, retry_unless_exception_type, retry_if_exception_cause_type][kind]
    t2 = (KeyError, TimeoutError) if wide else KeyError
    a, b = mk(ValueError), mk(t2)
    err = _error_pool(ei)
    v0, v1 = mk(ValueError)(err), mk(t2)(err)
    if sp == 0:
        comb, want = a | b, (v0 or v1)
    elif sp == 1:
        comb, want = retry_any(a, b), (v0 or v1)
    elif sp == 2:
        comb, want = a & b, (v0 and v1)
    else:
        comb, want = retry_all(a, b), (v0 and v1)
    got = comb(err)
    return isinstance(got, bool) and got == want
