"""C31 — timeout and cancellation stop the run cleanly and keep it resumable.

(1) reducer: TickTimeout => publish WorkflowTimedOutEvent(active_steps = exactly the steps with in-progress work) then
    Halt(WorkflowTimeoutError), is_running' False; TickCancelRun => publish WorkflowCancelledEvent then
    Halt(WorkflowCancelledByUser) and the state (queues, running work, buffers, waiters, running flag) is untouched;
(2) runner: the timeout tick sits in the timer heap at start+timeout and is popped no earlier (symbolic clock); processing
    either tick closes every pending worker start and runs no further command;
(3) whole runs on a virtual-time loop: the timeout / cancel lands at a symbolic position among step completions: outcome
    class, 'finished first => never timed out', no step entered after the cancel was processed, and the cancelled run's
    ctx.to_dict() resumes to the normal result."""
from __future__ import annotations

import vlib.boot  # noqa: F401
from vlib.boot import B, drive
from vlib.ob import obligation
from vlib.world import EVA, EVB, EvA, EvB, EvC, StartEvent, world_ab, world_ab_valid

from workflows.errors import WorkflowCancelledByUser, WorkflowTimeoutError
from workflows.events import Event, StopEvent, WorkflowCancelledEvent, WorkflowTimedOutEvent
from workflows.runtime.control_loop import _ControlLoopRunner, _reduce_tick
from workflows.runtime.types.commands import CommandHalt, CommandPublishEvent, CommandRunWorker
from workflows.runtime.types.plugin import InternalRunAdapter
from workflows.runtime.types.ticks import TickAddEvent, TickCancelRun, TickTimeout

ENCODED = [
    "workflows.runtime.control_loop:_process_timeout_tick",
    "workflows.runtime.control_loop:_process_cancel_run_tick",
    "workflows.runtime.control_loop:_ControlLoopRunner._process_tick",
    "workflows.runtime.control_loop:_ControlLoopRunner.process_command",
    "workflows.runtime.control_loop:_ControlLoopRunner.cleanup_tasks",
    "workflows.runtime.control_loop:_ControlLoopRunner.schedule_tick",
    "workflows.runtime.control_loop:_ControlLoopRunner.pop_due_ticks",
    "workflows.runtime.control_loop:_ControlLoopRunner.run",
    "workflows.handler:WorkflowHandler.cancel_run",
    "workflows.context.external_context:ExternalContext.to_dict",
]
ASSUMES = ["pre-state satisfies REP (C01)", "recording stub adapter in the runner-level obligations; no live worker tasks there",
           "whole runs: vlib.sched.SymAdapter chooses which pending completion / wake-up happens next (environment)"]
OUTSIDE = ["steps that swallow asyncio.CancelledError", "DBOS adapter", "num_workers > 3"]


def _sig(st):
    """Structural signature of everything but timestamps."""
    out = [st.is_running]
    for name in sorted(st.workers):
        ws = st.workers[name]
        out.append((name, [id(x.event) for x in ws.queue], [(x.worker_id, id(x.event), x.attempts) for x in ws.in_progress],
                    {k: [id(e) for e in v] for k, v in ws.collected_events.items()},
                    [(w.waiter_id, id(w.resolved_event) if w.resolved_event is not None else None, w.timed_out) for w in ws.collected_waiters]))
    return out


@obligation(quick=90, thorough=300, partitions_quick=[f"nw == {n}" for n in (1, 2, 3)], partitions_thorough=[f"nw == {n} and wk == {w}" for n in (1, 2, 3) for w in range(4)],
            what="reducer: timeout names exactly the steps with in-progress work, halts with WorkflowTimeoutError, clears the running flag; "
                 "cancel halts with WorkflowCancelledByUser and leaves the state untouched; both publish their terminal event first")
def ob_reducer(nw: int, b0: bool, b1: bool, b2: bool, q: int, wk: int, bb: bool, bq: int, cancel: bool, live: int) -> bool:
    """
    pre: world_ab_valid(nw, b0, b1, b2, q, bb, bq) and q <= 2 and bq <= 1 and 0 <= wk <= 3 and 0 <= live <= 1
    post: _
    """
    st = world_ab(nw, b0, b1, b2, q, wait_kind=wk, b_busy=bb, b_q=bq, buf_live=live, buf_snap=0)
    before = _sig(st)
    tick = TickCancelRun() if cancel else TickTimeout(timeout=7.0)
    st2, cmds = _reduce_tick(tick, st, 1)
    if _sig(st) != before:
        return False  # the reducer must not mutate its input
    pubs = [c for c in cmds if isinstance(c, CommandPublishEvent)]
    halts = [c for c in cmds if isinstance(c, CommandHalt)]
    if len(pubs) != 1 or len(halts) != 1 or cmds.index(pubs[0]) > cmds.index(halts[0]):
        return False
    if any(isinstance(c, CommandRunWorker) for c in cmds):
        return False
    if cancel:
        return (isinstance(pubs[0].event, WorkflowCancelledEvent) and isinstance(halts[0].exception, WorkflowCancelledByUser)
                and _sig(st2) == before)
    active = sorted(name for name in ("a", "b") if (name == "a" and (b0 or b1 or b2)) or (name == "b" and bb))
    ev = pubs[0].event
    return (isinstance(ev, WorkflowTimedOutEvent) and sorted(ev.active_steps) == active and ev.timeout == 7.0
            and isinstance(halts[0].exception, WorkflowTimeoutError) and st2.is_running is False
            and _sig(st2)[1:] == before[1:])


class _Adapter(InternalRunAdapter):
    def __init__(self, now) -> None:
        self.now = now
        self.published: list = []
        self.closed = 0

    @property
    def run_id(self) -> str:
        return "r"

    async def write_to_event_stream(self, event) -> None:
        self.published.append(event)

    async def get_now(self) -> float:
        return self.now

    async def send_event(self, tick) -> None:
        raise vlib.boot.HarnessError("unexpected")

    async def wait_receive(self, timeout_seconds=None):
        raise vlib.boot.HarnessError("unexpected")

    async def close(self) -> None:
        self.closed += 1

    def get_state_store(self):
        return None


@obligation(quick=90, thorough=300, what="runner: the timeout tick scheduled at start+timeout is popped at the first poll at/after that "
            "instant and never earlier; processing timeout/cancel closes all pending worker starts, raises the matching error after "
            "publishing, and starts nothing", bounds={"timeout": "1..3", "clock": "0..6", "pending starts": "0..2"})
def ob_runner(nw: int, b0: bool, b1: bool, q: int, timeout: int, t0: int, dt: int, cancel: bool, pend: int) -> bool:
    """
    pre: 1 <= nw <= 2 and world_ab_valid(nw, b0, b1, False, q) and q <= 1
    pre: 1 <= timeout <= 3 and 0 <= t0 <= 2 and 0 <= dt <= 4 and 0 <= pend <= 2
    post: _
    """
    st = world_ab(nw, b0, b1, False, q)
    ad = _Adapter(t0)
    r = _ControlLoopRunner.__new__(_ControlLoopRunner)
    r.workflow = None
    r.adapter = ad
    r.context = None
    r.step_workers = {}
    r.state = st
    r.worker_tasks = set()
    r.tick_buffer = []
    r.scheduled_wakeups = []
    r._wakeup_sequence = 0
    r._pull_sequence = 0
    r._task_keys = {}
    r._idle_check_pending = False
    r._pending_workers = []
    r.schedule_tick(TickTimeout(timeout=timeout), at_time=t0 + timeout)
    ad.now = t0 + dt
    due = r.pop_due_ticks(ad.now)
    if dt < timeout:
        if due or r.next_wakeup_timeout(ad.now) != timeout - dt:
            return False
        tick = TickCancelRun() if cancel else None
    else:
        if len(due) != 1 or not isinstance(due[0], TickTimeout):
            return False
        tick = TickCancelRun() if cancel else due[0]
    if tick is None:
        return True
    closed = []

    async def _w(i):
        closed.append(i)

    from workflows.runtime.types.named_task import PendingWorker

    coros = [_w(i) for i in range(pend)]
    for i, c in enumerate(coros):
        r._pending_workers.append(PendingWorker("a", i, c))
    kind = 0
    try:
        drive(r._process_tick(tick))
    except WorkflowCancelledByUser:
        kind = 1
    except WorkflowTimeoutError:
        kind = 2
    for c in coros:
        if c.cr_frame is not None:  # a closed coroutine has no frame; a never-closed one would still have it
            return False
    want = 1 if cancel else 2
    last = ad.published[-1] if ad.published else None
    ok_ev = isinstance(last, WorkflowCancelledEvent) if cancel else isinstance(last, WorkflowTimedOutEvent)
    return kind == want and ok_ev and len(ad.published) == 1 and not r._pending_workers and not closed


class Wb31(Event):  # module level: the serialized context refers to event classes by qualified name
    i: int


DEBUG: list = []


def _whole(mode: int, choices, resume: bool) -> bool:
    import asyncio

    from vlib.sched import Env, SymAdapter, SymRuntime, run_loop
    from workflows import Context, Workflow, step
    from workflows.events import Event

    env = Env(choices)
    cur = {"env": env}
    active: list = []
    entered: list = []
    published: list = []
    marks = {"cancel_processed_at": None}

    Wb = Wb31

    class RecAdapter(SymAdapter):
        async def write_to_event_stream(self, event) -> None:
            published.append(event)
            if isinstance(event, WorkflowCancelledEvent):
                marks["cancel_processed_at"] = len(entered)
            await super().write_to_event_stream(event)

    class Rt(SymRuntime):
        def get_internal_adapter(self, workflow):
            return RecAdapter(super().get_internal_adapter(workflow), self.env)

    class W(Workflow):
        @step
        async def start(self, ctx: Context, ev: StartEvent) -> Wb:
            entered.append("start")
            return Wb(i=1)

        @step
        async def work(self, ev: Wb) -> StopEvent:
            entered.append("work")
            active.append("work")
            await cur["env"].gate("work")
            active.remove("work")
            return StopEvent(result=ev.i)

    out: list = []
    saved: list = []

    async def main():
        wf = W(timeout=(5 if mode == 0 else None), runtime=Rt(env))
        h = wf.run(run_id="r")
        if mode == 1:
            for _ in range(env.choose(3) * 12):
                await asyncio.sleep(0)
            await h.cancel_run(timeout=1)
        try:
            out.append(("result", await h))
        except WorkflowCancelledByUser:
            out.append(("cancel", None))
            saved.append(h.ctx.to_dict())
        except WorkflowTimeoutError as e:
            out.append(("timeout", str(e)))

    run_loop(main)
    DEBUG.append((out, [type(e).__name__ for e in published], entered, dict(marks)))
    if len(out) != 1:
        return False
    kind = out[0][0]
    terms = [e for e in published if isinstance(e, StopEvent)]
    if len(terms) != 1 or published[-1] is not terms[0]:
        return False
    if kind == "result":
        # finished first => never timed out / cancelled afterwards
        return out[0][1] == 1 and type(terms[0]) is StopEvent
    if kind == "timeout":
        ev = terms[0]
        # named steps were really entered; every step whose body is still running is named
        return (mode == 0 and isinstance(ev, WorkflowTimedOutEvent) and all(s in entered for s in ev.active_steps)
                and all(s in ev.active_steps for s in active) and len(set(ev.active_steps)) == len(ev.active_steps))
    # cancelled
    if not isinstance(terms[0], WorkflowCancelledEvent) or marks["cancel_processed_at"] != len(entered):
        return False  # a step was entered after the cancel had been processed
    if not resume:
        return True
    import json

    blob = json.loads(json.dumps(saved[0]))
    env2 = Env([0, 0, 0, 0])
    res2: list = []

    async def main2():
        wf2 = W(timeout=None, runtime=Rt(env2))
        ctx2 = Context.from_dict(wf2, blob)
        h2 = wf2.run(ctx=ctx2, run_id="r2")
        res2.append(await h2)

    entered_before = len(entered)
    cur["env"] = env2
    del active[:]
    run_loop(main2)
    return res2 == [1] and len(entered) >= entered_before


@obligation(quick=None, thorough=900,
            partitions_thorough=[f"mode == {m} and c0 == {a} and c1 == {b}" for m in (0, 1) for a in range(3) for b in range(3)],
            what="whole run (real run() loop on MiniLoop): timeout or cancel lands at a symbolic position among step completions; "
                 "outcome class + terminal event match, a run that finishes first is not timed out, no step is entered after the cancel "
                 "was processed, the cancelled context (through JSON) resumes to the normal result",
            bounds={"schedule decisions": "3 (quick) / 4 (thorough)", "steps": 2})
def ob_whole_run(mode: int, c0: int, c1: int, c2: int, c3: int) -> bool:
    """
    pre: 0 <= mode <= 1 and 0 <= c0 <= 2 and 0 <= c1 <= 2 and 0 <= c2 <= 2 and 0 <= c3 <= 2
    pre: THOROUGH or c3 == 0
    post: _
    """
    return _whole(mode, [c0, c1, c2, c3], resume=True)


THOROUGH = vlib.boot.THOROUGH


# ------------------------------------------------------------------ a resumed run is a run: its timeout applies too

from workflows import Context, Workflow, step  # noqa: E402
from vlib.h_handlers import conc  # noqa: E402
from vlib.h_idle import install_speedups  # noqa: E402

install_speedups()  # tooling only; every solver decision is taken before the scenario starts


class TSlow(Event):
    pass


@obligation(quick=200, thorough=400, partitions_quick=[f"T == {t}" for t in (1, 2, 3)], partitions_thorough=[f"T == {t} and c == {c}" for t in (1, 2, 3, 4) for c in range(t)],
            what="whole run, real BasicRuntime on the virtual-time loop: a run with timeout T is cancelled at a symbolic instant c < T while a step is still "
                 "running, its context goes through to_dict -> JSON -> Context.from_dict, and the resumed run (still unfinished: the step never "
                 "completes) fails with WorkflowTimeoutError T seconds after the resume, after publishing WorkflowTimedOutEvent naming the active step; a "
                 "resumed run whose step does complete in time finishes normally and is not timed out",
            bounds={"timeout T": "1..3 (thorough 4)", "cancel instant": "0..T-1", "resumed step": "never completes / completes after d < T"})
def ob_resumed_run_times_out(T: int, c: int, finishes: bool, d: int) -> bool:
    """
    pre: 1 <= T <= TMAXR and 0 <= c < T and 0 <= d < T
    post: _
    """
    import asyncio
    import json

    import workflows.plugins.basic as basic_mod
    import workflows.runtime.types.step_function as sf_mod
    from vlib.h_idle import FakeTime
    from vlib.miniloop import MiniLoop

    T, c, d = conc(T, 1, 4), conc(c, 0, 3), conc(d, 0, 3)
    finishes = True if finishes else False
    book = {"life": 1}

    class W(Workflow):
        @step
        async def start(self, ctx: Context, ev: StartEvent) -> TSlow:
            return TSlow()

        @step
        async def slow(self, ctx: Context, ev: TSlow) -> StopEvent:
            if book["life"] == 2 and finishes:
                await asyncio.sleep(d)
                return StopEvent(result="late but in time")
            await asyncio.sleep(1000)          # never completes within any timeout considered here
            return StopEvent(result="never")

    loop = MiniLoop()
    out: dict = {}

    async def main():
        w1 = W(timeout=T, runtime=basic_mod.BasicRuntime())
        h1 = w1.run(run_id="r1")
        await asyncio.sleep(c)
        await h1.cancel_run()
        try:
            await h1
            out["first"] = "finished"
        except WorkflowCancelledByUser:
            out["first"] = "cancelled"
        snap = json.loads(json.dumps(h1.ctx.to_dict()))
        book["life"] = 2
        w2 = W(timeout=T, runtime=basic_mod.BasicRuntime())
        t0 = loop.time()
        h2 = w2.run(ctx=Context.from_dict(w2, snap), run_id="r2")
        seen = []

        async def watch():
            async for e in h2.stream_events(expose_internal=True):
                seen.append(e)

        wt = asyncio.ensure_future(watch())
        try:
            out["second"] = ("result", await asyncio.wait_for(h2, timeout=T + 20))
        except WorkflowTimeoutError:
            out["second"] = ("timeout", loop.time() - t0)
        except asyncio.TimeoutError:
            out["second"] = ("HUNG", None)
            wt.cancel()
            return
        await wt
        out["timed_out_events"] = [e for e in seen if isinstance(e, WorkflowTimedOutEvent)]

    saved = (basic_mod.time, sf_mod.time)
    basic_mod.time = sf_mod.time = FakeTime(loop)
    try:
        loop.run_until_complete(main())
    finally:
        basic_mod.time, sf_mod.time = saved
    if out.get("first") != "cancelled":
        return False
    kind, val = out.get("second", ("none", None))
    if finishes:
        return kind == "result" and val == "late but in time" and not out.get("timed_out_events")
    if kind != "timeout" or val != T:
        return False
    evs = out.get("timed_out_events", [])
    return len(evs) == 1 and evs[0].active_steps == ["slow"]


TMAXR = B(3, 4)


# ------------------------------------------------------------------ "a run that finishes first is never timed out", runner level
# The runner reads the clock (adapter.get_now) several times per iteration; between a step returning its StopEvent and the loop
# reducing that result the clock may pass the deadline (a slow tick hook, the 0.5 s task clean-up, a GC pause).  The run finished
# first: it must complete.

class _JumpClock:
    """virtual clock = loop time + jumps; the k-th read through the `jumping` view first adds jumps[k] (time that passes just before
    the control loop looks at the clock); the `plain` view (used by the step to note when it finished) adds nothing"""

    def __init__(self, loop, jumps) -> None:
        self.loop, self.jumps, self.k, self.extra, self.first = loop, list(jumps), 0, 0, None

    def now(self) -> float:
        return self.loop.time() + self.extra

    def read(self) -> float:
        if self.k < len(self.jumps):
            self.extra += self.jumps[self.k]
        self.k += 1
        v = self.now()
        if self.first is None:
            self.first = v
        return v


class _JumpingView:
    def __init__(self, clock: _JumpClock) -> None:
        self._c = clock

    def time(self) -> float:
        return self._c.read()

    monotonic = time
    perf_counter = time


class _PlainView:
    def __init__(self, clock: _JumpClock) -> None:
        self._c = clock

    def time(self) -> float:
        return self._c.now()

    monotonic = time
    perf_counter = time


class _FinishW(Workflow):
    @step
    async def work(self, ctx: Context, ev: StartEvent) -> StopEvent:
        import asyncio

        await asyncio.sleep(self.d)
        self.finished_at = self.clock.now()
        return StopEvent(result="done")


NJUMP = 5
JMAX = 2


@obligation(quick=200, thorough=400, partitions_quick=[f"T == {t}" for t in (1, 2, 3)],
            partitions_thorough=[f"T == {t} and j0 == {j}" for t in (1, 2, 3, 4) for j in (0, 1, 2)],
            what="whole run, real BasicRuntime and runner loop on the virtual-time loop with a clock that jumps by symbolic amounts at each of "
                 "the runner's first clock reads (time passing between a step returning and the loop reducing its result): a run whose step "
                 "returned its StopEvent strictly before start + timeout completes with that result and publishes no WorkflowTimedOutEvent; "
                 "a run that fails with WorkflowTimeoutError had not finished before the deadline",
            bounds={"timeout T": "1..3 (thorough 4)", "step duration d": "0..1", "jumps": "5 reads x 0..2 s"})
def ob_finished_first_is_not_timed_out(T: int, d: int, j0: int, j1: int, j2: int, j3: int, j4: int) -> bool:
    """
    pre: 1 <= T <= TMAXR and 0 <= d <= 1
    pre: 0 <= j0 <= JMAX and 0 <= j1 <= JMAX and 0 <= j2 <= JMAX and 0 <= j3 <= JMAX and 0 <= j4 <= JMAX
    post: _
    """
    return _jump_clock_run(T, d, j0, j1, j2, j3, j4)


@obligation(quick=200, thorough=400, partitions_quick=[f"T == {t}" for t in (1, 2, 3)],
            partitions_thorough=[f"T == {t} and j0 == {j}" for t in (1, 2, 3, 4) for j in (0, 1, 2)],
            what="same clock (jumps at the runner's reads, so the deadline can be OVERDUE at the moment the loop computes how long to wait next), a "
                 "step that never finishes: the run is still timed out — WorkflowTimeoutError after exactly one WorkflowTimedOutEvent, not an "
                 "unbounded wait",
            bounds={"timeout T": "1..3 (thorough 4)", "jumps": "5 reads x 0..2 s"})
def ob_overdue_deadline_still_times_out(T: int, j0: int, j1: int, j2: int, j3: int, j4: int) -> bool:
    """
    pre: 1 <= T <= TMAXR
    pre: 0 <= j0 <= JMAX and 0 <= j1 <= JMAX and 0 <= j2 <= JMAX and 0 <= j3 <= JMAX and 0 <= j4 <= JMAX
    post: _
    """
    return _jump_clock_run(T, 1000, j0, j1, j2, j3, j4)


def _jump_clock_run(T: int, d: int, j0: int, j1: int, j2: int, j3: int, j4: int) -> bool:
    import asyncio

    import workflows.plugins.basic as basic_mod
    import workflows.runtime.types.step_function as sf_mod
    from vlib.miniloop import MiniLoop

    never = d >= 1000
    T, d = conc(T, 1, 4), (1000 if never else conc(d, 0, 1))
    jumps = [conc(j, 0, JMAX) for j in (j0, j1, j2, j3, j4)]
    loop = MiniLoop()
    clock = _JumpClock(loop, jumps)
    out: dict = {}

    async def main():
        w = _FinishW(timeout=T, runtime=basic_mod.BasicRuntime())
        w.d, w.clock, w.finished_at = d, clock, None
        h = w.run(run_id="r1")
        seen = []

        async def watch():
            async for e in h.stream_events(expose_internal=True):
                seen.append(e)

        wt = asyncio.ensure_future(watch())
        try:
            out["kind"], out["val"] = "result", await asyncio.wait_for(h, timeout=T + 30)
        except WorkflowTimeoutError:
            out["kind"] = "timeout"
        except asyncio.TimeoutError:
            out["kind"] = "HUNG"
            wt.cancel()
            return
        await wt
        out["timed_out_events"] = [e for e in seen if isinstance(e, WorkflowTimedOutEvent)]
        out["finished_at"] = w.finished_at

    saved = (basic_mod.time, sf_mod.time)
    basic_mod.time, sf_mod.time = _JumpingView(clock), _PlainView(clock)
    try:
        loop.run_until_complete(main())
    finally:
        basic_mod.time, sf_mod.time = saved
    if clock.first is None or out.get("kind") not in ("result", "timeout"):
        return False
    if never:
        return out["kind"] == "timeout" and len(out.get("timed_out_events", [])) == 1
    deadline = clock.first + T
    fin = out.get("finished_at")
    if fin is not None and fin < deadline:
        return out["kind"] == "result" and out.get("val") == "done" and not out.get("timed_out_events")
    if out["kind"] == "timeout":
        return fin is None or fin >= deadline
    return True


# ------------------------------------------------------------------ cancel with several EQUAL events in flight, then resume
class Sample(Event):
    prompt: str


class SDone(Event):
    v: int


class _FanSame(Workflow):
    """fans out n events (equal payloads when `same`) to a step with n workers; the first life parks every invocation, the resumed life
    lets them finish; the run completes when all n results are collected"""

    @step
    async def start(self, ctx: Context, ev: StartEvent) -> Sample | None:
        for i in range(self.n):
            ctx.send_event(Sample(prompt=("p" if self.same else "p%d" % i)))
        return None

    @step(num_workers=4)
    async def work(self, ctx: Context, ev: Sample) -> SDone:
        import asyncio

        if self.life[0] == 1:
            await asyncio.sleep(1000)
        return SDone(v=1)

    @step
    async def join(self, ctx: Context, ev: SDone) -> StopEvent | None:
        got = ctx.collect_events(ev, [SDone] * self.n)
        if got is None:
            return None
        return StopEvent(result=len(got))


@obligation(quick=200, thorough=400, partitions_quick=[f"n == {k}" for k in (2, 3)],
            what="cancel_run while n invocations of one step are in flight on events with EQUAL payloads (or distinct ones), context through to_dict "
                 "-> JSON -> Context.from_dict, resumed: every interrupted invocation runs again and the run completes with all n results",
            bounds={"invocations in flight": "2..3 (thorough 4)", "payloads": "all equal / all distinct", "cancel instant": "1..2"})
def ob_cancel_resume_equal_events(n: int, same: bool, c: int) -> bool:
    """
    pre: 2 <= n <= NSAME and 1 <= c <= 2
    post: _
    """
    import asyncio
    import json

    import workflows.plugins.basic as basic_mod
    import workflows.runtime.types.step_function as sf_mod
    from vlib.h_idle import FakeTime
    from vlib.miniloop import MiniLoop

    n, c = conc(n, 2, 4), conc(c, 1, 2)
    same = True if same else False
    life = [1]
    loop = MiniLoop()
    out: dict = {}

    def mk():
        w = _FanSame(timeout=None, runtime=basic_mod.BasicRuntime())
        w.n, w.same, w.life = n, same, life
        return w

    async def main():
        h1 = mk().run(run_id="r1")
        await asyncio.sleep(c)
        await h1.cancel_run()
        try:
            await h1
            out["first"] = "finished"
        except WorkflowCancelledByUser:
            out["first"] = "cancelled"
        snap = json.loads(json.dumps(h1.ctx.to_dict()))
        life[0] = 2
        w2 = mk()
        h2 = w2.run(ctx=Context.from_dict(w2, snap), run_id="r2")
        try:
            out["second"] = ("result", await asyncio.wait_for(h2, timeout=30))
        except asyncio.TimeoutError:
            out["second"] = ("HUNG", None)
        except Exception as e:  # noqa: BLE001
            out["second"] = ("error", repr(e))

    saved = (basic_mod.time, sf_mod.time)
    basic_mod.time = sf_mod.time = FakeTime(loop)
    try:
        loop.run_until_complete(main())
    finally:
        basic_mod.time, sf_mod.time = saved
    return out.get("first") == "cancelled" and out.get("second") == ("result", n)


NSAME = B(3, 4)


# ------------------------------------------------------------------ the application LOOKS at the run while it works, then cancels and resumes
class _FanDur(Workflow):
    """fans out n events to a step with 4 workers; in the first life invocation i takes dur[i] seconds (>= 1000: it hangs until the
    cancellation); the resumed life lets everything finish at once; the run completes when all n results are collected"""

    @step
    async def start(self, ctx: Context, ev: StartEvent) -> Sample | None:
        for i in range(self.n):
            ctx.send_event(Sample(prompt="p%d" % i))
        return None

    @step(num_workers=4)
    async def work(self, ctx: Context, ev: Sample) -> SDone:
        import asyncio

        i = int(ev.prompt[1:])
        if self.life[0] == 1:
            await asyncio.sleep(self.dur[i])
        return SDone(v=i)

    @step
    async def join(self, ctx: Context, ev: SDone) -> StopEvent | None:
        got = ctx.collect_events(ev, [SDone] * self.n)
        if got is None:
            return None
        return StopEvent(result=sorted(e.v for e in got))      # WHICH invocations produced the results, not just how many


@obligation(quick=240, thorough=600, partitions_quick=[f"pk == {p} and how == {h}" for p in (0, 1, 2) for h in (0, 1)],
            partitions_thorough=[f"pk == {p} and how == {h} and d0 == {d}" for p in (0, 1, 2) for h in (0, 1, 2) for d in (0, 1, 2, 3)],
            what="the application looks at a WORKING run (ctx.running_steps() / ctx.to_dict() / both, at instant pk, while some of 3 invocations of a "
                 "4-worker step have finished and others are busy), later cancels it: the context still serializes (to_dict -> JSON -> "
                 "Context.from_dict) and the resumed run completes with the results of exactly the 3 invocations (each once) — looking at a run does not change what a later "
                 "snapshot contains",
            bounds={"invocations": 3, "first-life durations d0, d1": "0..2 or hanging (3); the third hangs", "look at": "0..2", "cancel at": "look + 1..2"})
def ob_look_then_cancel_resume(pk: int, how: int, dc: int, d0: int, d1: int) -> bool:
    """
    pre: 0 <= pk <= 2 and 0 <= how <= HOW31 and 1 <= dc <= 2 and 0 <= d0 <= 3 and 0 <= d1 <= 3
    post: _
    """
    import asyncio
    import json

    import workflows.plugins.basic as basic_mod
    import workflows.runtime.types.step_function as sf_mod
    from vlib.h_idle import FakeTime
    from vlib.miniloop import MiniLoop

    pk, how, dc, d0, d1 = conc(pk, 0, 2), conc(how, 0, 2), conc(dc, 1, 2), conc(d0, 0, 3), conc(d1, 0, 3)
    life = [1]
    loop = MiniLoop()
    out: dict = {}
    n = 3

    def mk():
        w = _FanDur(timeout=None, runtime=basic_mod.BasicRuntime())
        w.n, w.life, w.dur = n, life, [1000 if d == 3 else d for d in (d0, d1)] + [1000]
        return w

    async def main():
        h1 = mk().run(run_id="r1")
        await asyncio.sleep(pk)
        try:
            if how in (0, 2):
                await h1.ctx.running_steps()
            if how in (1, 2):
                h1.ctx.to_dict()
        except Exception as e:  # noqa: BLE001
            out["look"] = repr(e)
        await asyncio.sleep(dc)
        await h1.cancel_run()
        try:
            await h1
            out["first"] = "finished"
        except WorkflowCancelledByUser:
            out["first"] = "cancelled"
        try:
            snap = json.loads(json.dumps(h1.ctx.to_dict()))
        except Exception as e:  # noqa: BLE001
            out["snapshot"] = repr(e)
            return
        life[0] = 2
        w2 = mk()
        h2 = w2.run(ctx=Context.from_dict(w2, snap), run_id="r2")
        try:
            out["second"] = ("result", await asyncio.wait_for(h2, timeout=30))
        except asyncio.TimeoutError:
            out["second"] = ("HUNG", None)
        except Exception as e:  # noqa: BLE001
            out["second"] = ("error", repr(e))

    saved = (basic_mod.time, sf_mod.time)
    basic_mod.time = sf_mod.time = FakeTime(loop)
    try:
        loop.run_until_complete(main())
    finally:
        basic_mod.time, sf_mod.time = saved
    return "look" not in out and "snapshot" not in out and out.get("first") == "cancelled" and out.get("second") == ("result", list(range(n)))


HOW31 = B(1, 2)
