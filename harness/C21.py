"""C21 — a SqliteWorkflowStore opened with single_connection=True (the AgentCore configuration) serves any sequence of handler,
event, tick and state-store operations with the same results as a store opened with per-call connections.

One obligation: a symbolic operation script (length and every op code are solver variables) is executed against TWO real
``SqliteWorkflowStore`` objects on two fresh tmp files, one with ``single_connection=True`` (shared ``vfs=unix-none``
connection, handed on to every ``SqliteStateStore`` it creates), one with per-call connections.  After every operation the
observation (returned value turned into plain tuples, or the class name of the raised exception) must be equal."""
from __future__ import annotations

import vlib.boot  # noqa: F401
from vlib.boot import B, drive
from vlib.ob import obligation
from vlib.h_stores import TmpDir, env_plain, ev_key, freeze, handler_key, hq, pick_bisect, pick_int, untraced, warm_sqlite

import logging
import os

from pydantic import BaseModel
import sqlite3

from llama_agents.server._store.abstract_workflow_store import PersistentHandler
from llama_agents.server._store.sqlite.sqlite_workflow_store import SqliteWorkflowStore
from workflows.context.serializers import JsonSerializer
from workflows.context.state_store import DictState, InMemoryStateStore
from workflows.events import StopEvent

ENCODED = [
    "llama_agents.server._store.sqlite.sqlite_workflow_store:SqliteWorkflowStore.__init__",
    "llama_agents.server._store.sqlite.sqlite_workflow_store:SqliteWorkflowStore._open_nolock",
    "llama_agents.server._store.sqlite.sqlite_workflow_store:SqliteWorkflowStore._connect",
    "llama_agents.server._store.sqlite.sqlite_workflow_store:SqliteWorkflowStore.create_state_store",
    "llama_agents.server._store.sqlite.sqlite_workflow_store:SqliteWorkflowStore.query",
    "llama_agents.server._store.sqlite.sqlite_workflow_store:SqliteWorkflowStore.update",
    "llama_agents.server._store.sqlite.sqlite_workflow_store:SqliteWorkflowStore.delete",
    "llama_agents.server._store.sqlite.sqlite_workflow_store:SqliteWorkflowStore.append_event",
    "llama_agents.server._store.sqlite.sqlite_workflow_store:SqliteWorkflowStore.query_events",
    "llama_agents.server._store.sqlite.sqlite_workflow_store:SqliteWorkflowStore.append_tick",
    "llama_agents.server._store.sqlite.sqlite_workflow_store:SqliteWorkflowStore.get_ticks",
    "llama_agents.server._store.sqlite.sqlite_workflow_store:SqliteWorkflowStore.stream_ticks",
    "llama_agents.server._store.sqlite.sqlite_workflow_store:SqliteWorkflowStore.get_legacy_ctx",
    "llama_agents.server._store.abstract_workflow_store:AbstractWorkflowStore.update_handler_status",
    "llama_agents.server._store.sqlite.sqlite_state_store:SqliteStateStore._connect",
    "llama_agents.server._store.sqlite.sqlite_state_store:SqliteStateStore._load_state",
    "llama_agents.server._store.sqlite.sqlite_state_store:SqliteStateStore._save_state",
    "llama_agents.server._store.sqlite.sqlite_state_store:SqliteStateStore._copy_state_from_run",
    "llama_agents.server._store.sqlite.sqlite_state_store:SqliteStateStore._seed_from_serialized",
    "llama_agents.server._store.sqlite.sqlite_state_store:SqliteStateStore.get_state",
    "llama_agents.server._store.sqlite.sqlite_state_store:SqliteStateStore.set_state",
    "llama_agents.server._store.sqlite.sqlite_state_store:SqliteStateStore.get",
    "llama_agents.server._store.sqlite.sqlite_state_store:SqliteStateStore.set",
    "llama_agents.server._store.sqlite.sqlite_state_store:SqliteStateStore.clear",
    "llama_agents.server._store.sqlite.sqlite_state_store:SqliteStateStore.edit_state",
]
ASSUMES = [
    "sqlite3 (3.40.1, vfs=unix-none present — probed at import, see _probe_vfs), pydantic and json execute concretely inside each "
    "path; each store gets its own fresh tmp file (tmpfs); the solver enumerates the script: length 1..NOPS and one of "
    "%d op codes per position (argument values are a function of the op code and the position), plus whether the state store "
    "object is created once and reused or re-created by create_state_store for every state operation",
    "observation per operation = returned value as plain tuples (handlers / events / ticks without their wall-clock timestamps, "
    "which differ between two stores by construction) or the class name of the raised exception; one asyncio-free driver: every "
    "operation is awaited to completion before the next one starts (the store methods never suspend without contention)",
    "one caller at a time (no concurrent tasks on the shared connection); the file is only ever opened in one mode",
    "the real stores run with CrossHair's opcode tracing suspended (vlib.h_stores.untraced): by then every input is a concrete value "
    "fixed by the solver-chosen path, so tracing adds nothing but a ~30x slowdown; the solver still enumerates the scripts and decides the verdict",
    "logging is disabled process-wide (LogRecord creation reads the wall clock, which CrossHair makes symbolic); log output is not observed",
]
OUTSIDE = [
    "concurrent operations on the shared connection; subscribe_events (needs a live writer; built on query_events which is covered)",
    "typed (non-DictState) state models; scripts longer than NOPS; more than two run ids / one handler id",
    "a file created in per-call (WAL) mode and re-opened with single_connection=True (unix-none cannot open a WAL file: see C28 OUTSIDE)",
    "the AgentCore entrypoint wiring itself (only the store configuration it uses)",
]


def _probe_vfs() -> bool:
    with TmpDir() as d:
        try:
            c = sqlite3.connect("file:%s?vfs=unix-none" % os.path.join(d, "p.db"), uri=True)
            try:
                c.execute("CREATE TABLE t(a)")
                c.commit()
            finally:
                c.close()
            return True
        except Exception:
            return False


if not _probe_vfs():
    # no verdict without the feature under test: report, do not pretend
    raise vlib.boot.HarnessError("C21 not runnable: this platform's sqlite3 lacks URI filenames / the unix-none VFS used by single_connection=True")

warm_sqlite()

# Building a LogRecord reads time.time(), which CrossHair turns into a symbolic float and then forks on (msecs arithmetic):
# update_handler_status logs "run not found" when the script updates a status before any upsert, run_migrations logs on its fallbacks.
# Log output is not an observation of this property: switch record creation off for the whole process.
logging.disable(logging.CRITICAL)

NOPS = B(3, 4)

# ------------------------------------------------------------------------------------------------ op codes
(UPSERT, STATUS, QUERY, DELETE, APPEND_EV, QUERY_EV, APPEND_TICK, GET_TICKS, STREAM_TICKS, LEGACY_CTX,
 S_SET, S_GET, S_SET_STATE, S_SEED_COPY, S_GET_STATE, S_CLEAR, S_SEED_MEM, S_GET_R1, S_SET_STATE_BAD, S_TYPED) = range(20)
NCODES = 20
FIRST_STATE_OP = S_SET            # op codes >= 10 go through a SqliteStateStore
_R0_STATE = (S_SET, S_GET, S_SET_STATE, S_GET_STATE, S_CLEAR, S_SET_STATE_BAD)   # ... of run r0 (the object that may be reused)


def _core(o: int) -> bool:
    """the 12-code core pool used for the longest scripts of the thorough tier (drops stream_ticks, get_legacy_ctx, get_state, clear,
    seed-from-memory and the read of the seeded run: each shares its connection handling with a core op)"""
    return o <= GET_TICKS or S_SET <= o <= S_SEED_COPY or o == S_SET_STATE_BAD

ASSUMES[0] = ASSUMES[0] % NCODES


# KF-C21-1 (known_findings.json) excludes exactly: a state-store operation (op code >= S_SET; each closes the connection it was
# handed) that is followed by a further operation, or a final S_SET (set = load + save needs the connection twice).  Every other
# script is still searched.


class _Unrelated(BaseModel):
    z: int = 0


class _Ctx:
    def __init__(self, store: SqliteWorkflowStore, reuse: bool) -> None:
        self.store = store
        self.reuse = reuse
        self.ss = None
        self.untyped_r2 = None

    def state(self):
        if self.ss is None or not self.reuse:
            self.ss = self.store.create_state_store("r0")
        return self.ss


async def _collect(agen):
    return [x async for x in agen]


def _tick_key(t):
    return (t.run_id, t.sequence, freeze(t.tick_data))


def _apply(c: _Ctx, o: int, pos: int):
    st = c.store
    if o == UPSERT:
        drive(st.update(PersistentHandler(handler_id="h0", workflow_name="w%d" % pos, status="running", run_id="r0")))
        return None
    if o == STATUS:
        drive(st.update_handler_status("r0", status="completed", result=StopEvent(result=pos)))
        return None
    if o == QUERY:
        return sorted(handler_key(h) for h in drive(st.query(hq(hid=["h0"]))))
    if o == DELETE:
        return drive(st.delete(hq(hid=["h0"])))
    if o == APPEND_EV:
        drive(st.append_event("r0", env_plain(pos)))
        return None
    if o == QUERY_EV:
        return [ev_key(e) for e in drive(st.query_events("r0", after_sequence=-1))]
    if o == APPEND_TICK:
        drive(st.append_tick("r0", {"i": pos}))
        return None
    if o == GET_TICKS:
        return [_tick_key(t) for t in drive(st.get_ticks("r0"))]
    if o == STREAM_TICKS:
        return [_tick_key(t) for t in drive(_collect(st.stream_ticks("r0")))]
    if o == LEGACY_CTX:
        return freeze(st.get_legacy_ctx("r0"))
    if o == S_SET:
        drive(c.state().set("k", pos))
        return None
    if o == S_GET:
        return freeze(drive(c.state().get("k", None)))
    if o == S_GET_STATE:
        return freeze(drive(c.state().get_state()).model_dump())
    if o == S_SET_STATE:
        drive(c.state().set_state(DictState(j=pos)))
        return None
    if o == S_CLEAR:
        drive(c.state().clear())
        return None
    if o == S_SET_STATE_BAD:  # an operation that FAILS in both modes (state of an unrelated type): what it leaves behind on the connection matters
        drive(c.state().set_state(_Unrelated(z=pos)))
        return None
    if o == S_TYPED:
        # the service first looks at a run's state through an UNTYPED store object (continuation read, legacy seeding) and keeps it
        # alive; the run's adapter then asks for the store with the workflow's state type
        if c.untyped_r2 is None:
            c.untyped_r2 = st.create_state_store("r2")
        ts = st.create_state_store("r2", _Unrelated)
        drive(ts.set_state(_Unrelated(z=pos)))
        got = drive(ts.get_state())
        return (type(got).__name__, freeze(got.model_dump()))
    if o == S_SEED_COPY:     # a new run's state store seeded from run r0's row (what a continued / resumed run does)
        st.create_state_store("r1", serialized_state={"store_type": "sqlite", "run_id": "r0"}, serializer=JsonSerializer())
        return None
    if o == S_SEED_MEM:      # seeded from the in-memory serialisation format
        ser = JsonSerializer()
        st.create_state_store("r1", serialized_state=InMemoryStateStore(DictState(k=100 + pos)).to_dict(ser), serializer=ser)
        return None
    return freeze(drive(st.create_state_store("r1").get("k", None)))   # S_GET_R1


def _observe(c: _Ctx, o: int, pos: int):
    try:
        return ("ok", _apply(c, o, pos))
    except Exception as e:
        return ("exc", type(e).__name__)


def _run_script(n: int, ops, reuse: bool) -> bool:
    with TmpDir() as d:
        single = SqliteWorkflowStore(os.path.join(d, "single.db"), single_connection=True)
        percall = SqliteWorkflowStore(os.path.join(d, "percall.db"))
        cs, cp = _Ctx(single, reuse), _Ctx(percall, reuse)
        ok = True
        try:
            for pos in range(n):
                if _observe(cs, ops[pos], pos) != _observe(cp, ops[pos], pos):
                    ok = False
                    break
        finally:
            try:
                if single._persistent_conn is not None:
                    single._persistent_conn.close()
            except Exception:
                pass
    return ok


@obligation(quick=300, thorough=900,
            # every partition mixes state and non-state op codes, so none becomes empty under the known-finding exclusion
            partitions_quick=[f"o0 % 6 == {a}" for a in range(6)],
            partitions_thorough=[f"o0 % 9 == {a} and o1 % 3 == {m}" for a in range(9) for m in range(3)],
            what="op script on SqliteWorkflowStore(single_connection=True) vs SqliteWorkflowStore() on two fresh files: per-op results / exception classes equal",
            bounds={"script length": "1..NOPS (quick 3, thorough 4; scripts of length 4 use the 12-code core pool, see _core)", "op codes": "%d (upsert, update_handler_status, query, delete, append_event, query_events, append_tick, get_ticks, stream_ticks, "
                    "get_legacy_ctx, state set/get/get_state/set_state/clear, seed copy, seed from in-memory format, get on seeded run)" % NCODES,
                    "state store object": "reused / re-created per op"})
def ob_mode_equivalence(n: int, o0: int, o1: int, o2: int, o3: int, reuse: bool) -> bool:
    """
    pre: 1 <= n <= NOPS
    pre: 0 <= o0 < NCODES and 0 <= o1 < NCODES and 0 <= o2 < NCODES and 0 <= o3 < NCODES
    pre: (n > 1 or o1 == 0) and (n > 2 or o2 == 0) and (n > 3 or o3 == 0)
    pre: n <= 3 or (_core(o0) and _core(o1) and _core(o2) and _core(o3))
    post: _
    """
    n = pick_int(n, 1, NOPS)
    ops = [pick_bisect(o, 0, NCODES - 1) for o in (o0, o1, o2, o3)[:n]]
    nstate = len([o for o in ops if o in _R0_STATE])
    reuse = (True if reuse else False) if nstate >= 2 else True      # only matters when two ops use the run's state store
    # everything below receives concrete values only (the script was fixed by the forks above)
    with untraced():
        return _run_script(n, ops, reuse)


# ------------------------------------------------------------------------------------------------ long tick logs (paging)
# stream_ticks() reads the log page by page (_TICK_PAGE_SIZE rows); it is the replay path of a resumed run.  The op scripts above
# never get near a second page, and their driver has no event loop (a store that hands a page read to a worker thread would fail
# alike in both modes there).  Here the stores run on a REAL asyncio event loop, as in the server.

import asyncio  # noqa: E402

from llama_agents.server._store.sqlite import sqlite_workflow_store as _sws  # noqa: E402

_PAGE = _sws._TICK_PAGE_SIZE
_NTICKS = [0, 1, _PAGE - 1, _PAGE, _PAGE + 1, 2 * _PAGE - 1, 2 * _PAGE, 2 * _PAGE + 1]


async def _paging(store: SqliteWorkflowStore, n: int, extra_run: bool):
    for i in range(n):
        await store.append_tick("r0", {"i": i})
        if extra_run and i % 7 == 0:
            await store.append_tick("r1", {"other": i})     # rows of another run interleaved in the table
    streamed = [_tick_key(t) async for t in store.stream_ticks("r0")]
    got = [_tick_key(t) for t in await store.get_ticks("r0")]
    return streamed, got


def _observe_paging(store: SqliteWorkflowStore, n: int, extra_run: bool):
    loop = asyncio.new_event_loop()
    try:
        return ("ok", loop.run_until_complete(_paging(store, n, extra_run)))
    except Exception as e:  # noqa: BLE001
        return ("exc", type(e).__name__)
    finally:
        loop.close()


@obligation(quick=200, thorough=400,
            what="tick logs around the page boundaries of stream_ticks (0, 1, P-1, P, P+1, 2P-1, 2P, 2P+1 ticks, P = _TICK_PAGE_SIZE, optionally "
                 "with another run's rows interleaved), on a real asyncio event loop: stream_ticks and get_ticks return every tick once, in "
                 "order, identically with single_connection=True and with per-call connections",
            bounds={"ticks": "8 lengths around 0, P, 2P", "other run interleaved": "yes / no"})
def ob_tick_pages(sel: int, extra_run: bool) -> bool:
    """
    pre: 0 <= sel < len(_NTICKS)
    post: _
    """
    n = _NTICKS[pick_int(sel, 0, len(_NTICKS) - 1)]
    extra_run = True if extra_run else False
    with untraced():
        with TmpDir() as d:
            single = SqliteWorkflowStore(os.path.join(d, "single.db"), single_connection=True)
            percall = SqliteWorkflowStore(os.path.join(d, "percall.db"))
            try:
                a = _observe_paging(single, n, extra_run)
                b = _observe_paging(percall, n, extra_run)
            finally:
                try:
                    if single._persistent_conn is not None:
                        single._persistent_conn.close()
                except Exception:  # noqa: BLE001
                    pass
        want = [("r0", i, freeze({"i": i})) for i in range(n)]
        return a == b and a == ("ok", (want, want))


# ----------------------------------------------------------------------------------------------- the same CONCURRENT history in both modes
from vlib.miniloop import MiniLoop as _MiniLoop21  # noqa: E402

_W_SET, _W_SET_STATE, _W_CLEAR, _W_EDIT = range(4)


def _concurrent_history(single: bool, kw: int, te: int, de: int, tw: int, dirpath: str) -> Any:
    """two state-store objects of ONE run handed out by one SqliteWorkflowStore (what two step invocations get): through the first, an
    edit_state block that starts at te, reads x, is suspended for de and writes x + 1 / y = 7; through the second, at tw, a writer
    (set / set_state / clear / an edit_state block without suspension).  Returns the final state as plain data."""
    ws = SqliteWorkflowStore(os.path.join(dirpath, "single.db" if single else "percall.db"), single_connection=single)
    a, b, c = (ws.create_state_store("run-1") for _ in range(3))
    drive(c.set_state(DictState(x=0, y=0)))

    async def editor() -> None:
        await asyncio.sleep(te)
        async with a.edit_state() as s:
            x = s.get("x", 0)
            await asyncio.sleep(de)
            s["x"] = x + 1
            s["y"] = 7

    async def writer() -> None:
        await asyncio.sleep(tw)
        if kw == _W_SET:
            await b.set("x", 100)
        elif kw == _W_SET_STATE:
            await b.set_state(DictState(x=50, z=1))
        elif kw == _W_CLEAR:
            await b.clear()
        else:
            async with b.edit_state() as s:
                s["x"] = s.get("x", 0) + 10

    async def main() -> Any:
        await asyncio.gather(asyncio.ensure_future(editor()), asyncio.ensure_future(writer()))
        return (await c.get_state()).model_dump()

    out = _MiniLoop21().run_until_complete(main())
    return freeze(out)


@obligation(quick=200, thorough=400, partitions_quick=[f"kw == {k}" for k in range(4)], partitions_thorough=[f"kw == {k} and te == {t}" for k in range(4) for t in (0, 1)],
            what="the same CONCURRENT history of state-store operations — an edit_state block suspended between its load and its write-back through "
                 "one store object of a run, a writer (set / set_state / clear / edit_state) through another object of the same run at a "
                 "symbolic instant before, inside or after the block — ends in the same state on a single_connection=True store and on a "
                 "per-call-connection store",
            bounds={"block": "start 0..1, suspended 0..2", "writer": "4 kinds, instant 0..3", "store objects of the run": "2 (+1 reader)"})
def ob_concurrent_history_mode_equivalence(kw: int, te: int, de: int, tw: int) -> bool:
    """
    pre: 0 <= kw <= 3 and 0 <= te <= 1 and 0 <= de <= 2 and 0 <= tw <= 3
    post: _
    """
    kw, te, de, tw = pick_int(kw, 0, 3), pick_int(te, 0, 1), pick_int(de, 0, 2), pick_int(tw, 0, 3)
    with untraced():
        with TmpDir() as d:
            return _concurrent_history(True, kw, te, de, tw, d) == _concurrent_history(False, kw, te, de, tw, d)
