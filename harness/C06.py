"""C06 — retry delays follow the wait strategy in documented order.

Decomposition (robust to WHERE an index fix would be made — runtime, ``next`` or the strategy kernels)
* plumbing (Engine S): the delay of the k-th retry IS ``policy.next(elapsed, k, exc, seed)``: a fresh event runs with
  attempts = 0; a failure of an execution with attempts = a makes the real reducer call the real
  ``_ComposableRetryPolicy.next`` with attempts = a+1; the wait strategy is consulted exactly once, with the same index a
  direct call ``next(., a+1, .)`` consults it with, and the value it returns is the delay of the retry command, whose
  next execution has attempts = a+1.  The real runner does not release the retry tick before ``now + delay``.
* kernel shape (Engine T): each strategy's ``__call__`` (translated from the current source) computes the documented
  formula R as a function of the index it is given, up to ONE uniform index origin s in {0,1} per strategy
  (``strategy(i+s) == R(i)`` for all i) — clamps, growth law, chain selection, sums.
* alignment (Engine T): the delay used for the k-th retry — the real ``next(., k, .)`` translated together with the
  strategy — equals the delay the strategy DOCUMENTS for the k-th retry, R(k-1) (first retry = first chain entry /
  multiplier / initial / start: tenacity semantics) [eq], and is never shorter [no_earlier].  ``index_shift_visible``
  := R(k) != R(k-1) characterises the inputs on which an off-by-one in the index can be observed at all."""
from __future__ import annotations

import vlib.boot  # noqa: F401
from vlib.boot import B, drive
from vlib.ob import obligation, smt_obligation
from vlib.world import EVA, EVA2, EVB, world_ab, world_ab_valid
from vlib import h_retry as H

from workflows.retry_policy import retry_policy, stop_after_attempt, stop_never
from workflows.runtime.control_loop import _ControlLoopRunner, _reduce_tick
from workflows.runtime.types.commands import CommandQueueEvent
from workflows.runtime.types.results import StepWorkerFailed
from workflows.runtime.types.ticks import TickAddEvent, TickStepResult

ENCODED = [
    "workflows.retry_policy:wait_fixed.__call__",
    "workflows.retry_policy:wait_chain.__call__",
    "workflows.retry_policy:wait_chain.__init__",
    "workflows.retry_policy:wait_exponential.__call__",
    "workflows.retry_policy:wait_exponential.__init__",
    "workflows.retry_policy:wait_exponential_jitter.__call__",
    "workflows.retry_policy:wait_random_exponential.__call__",
    "workflows.retry_policy:wait_incrementing.__call__",
    "workflows.retry_policy:wait_combine.__call__",
    "workflows.retry_policy:_to_seconds",
    "workflows.retry_policy:_ComposableRetryPolicy.next",
    "workflows.retry_policy:stop_never.__call__",
    "workflows.runtime.control_loop:_process_step_result_tick",
    "workflows.runtime.control_loop:_add_or_enqueue_event",
    "workflows.runtime.control_loop:_ControlLoopRunner.process_command",
    "workflows.runtime.control_loop:_ControlLoopRunner.pop_due_ticks",
    "workflows.runtime.control_loop:_ControlLoopRunner.next_wakeup_timeout",
]
ASSUMES = [
    "reference table (documented delay for retry index j, j=0 = first retry) is hand-written in vlib.h_retry.*Spec from the "
    "docstrings of retry_policy.py and the tenacity semantics the property statement names; it is the specification, not code under test",
    "Engine T: Python float -> z3 Real, rounding ignored; parameters are finite numbers (not timedelta) satisfying the documented "
    "validity (>= 0, min <= max); ** overflow is excluded here (it is C07's subject)",
    "random.Random(seed).uniform(a,b) = uninterpreted U(seed, draw#, a, b) in [a,b]; for wait_random_exponential the compared "
    "quantity is the sampled RANGE (lo, hi) handed to uniform, observed natively with a recording stand-in for `random`",
    "Engine S plumbing: wait strategy = recording stub returning a symbolic int delay; instants are ints",
]
OUTSIDE = ["retry indices > 4 (quick) / 6 (thorough); chains longer than 3 / 4", "rounding of float arithmetic", "asyncio timer accuracy (virtual instants only)"]

KMAX = B(4, 6)
CHAIN_MAX = B(3, 4)
AMAX = B(3, 6)


# ---------------------------------------------------------------------------------------------- Engine S plumbing


class _RecWait:
    """Recording wait strategy (environment stub): remembers the attempts/seed it is asked about."""

    def __init__(self, delay) -> None:
        self.delay = delay
        self.calls: list = []

    def __call__(self, attempts, *, seed=None):
        self.calls.append((attempts, seed))
        return self.delay


@obligation(quick=120, thorough=400, partitions_quick=[f"a == {a}" for a in range(0, 4)], partitions_thorough=[f"a == {a} and nw == {n}" for a in range(0, 7) for n in (1, 2)],
            what="k-th failure (in-progress attempts = k-1): the real reducer calls the real _ComposableRetryPolicy.next(., k, ., seed); the wait strategy is "
                 "consulted once, with the index a direct next(., k, .) consults it with; the retry command carries that delay and attempts = k, and its next "
                 "execution has attempts = k; a fresh event starts at attempts = 0",
            bounds={"a = k-1": "0..AMAX", "delay": "0..3", "num_workers": "1 (thorough 1..2)", "queue": "0..1"})
def ob_retry_delay_is_next_of_failure_count(nw: int, b1: bool, q: int, wid: int, a: int, delay: int, n_stop: int) -> bool:
    """
    pre: 1 <= nw <= SHAPE_NW and world_ab_valid(nw, True, b1, False, q) and q <= 1
    pre: 0 <= wid <= 1 and (wid == 0 or b1)
    pre: 0 <= a <= AMAX and 0 <= delay <= 3 and 0 <= n_stop <= 1
    post: _
    """
    wait = _RecWait(delay)
    policy = retry_policy(wait=wait, stop=(stop_never() if n_stop == 0 else stop_after_attempt(AMAX + 2)))
    # base case: a fresh event is executed with attempts = 0
    st0 = world_ab(1, False, False, False, 0, policy=policy)
    st1, _ = _reduce_tick(TickAddEvent.model_construct(event=EVA, step_name=None, attempts=None, first_attempt_at=None, last_exception=None,
                                                      last_failed_at=None, recovery_counts={}), st0, 1)
    ips = st1.workers["a"].in_progress
    if len(ips) != 1 or ips[0].attempts != 0:
        return False
    # step: failure of an execution with attempts = a
    st = world_ab(nw, True, b1, False, q, att=a, policy=policy, t0=1)
    exc = ValueError("boom")
    tick = TickStepResult.model_construct(step_name="a", worker_id=wid, event=EVA, result=[StepWorkerFailed.model_construct(exception=exc, failed_at=2)])
    st2, cmds = _reduce_tick(tick, st, 2, "r")
    if len(wait.calls) != 1:
        return False
    idx_runtime, seed = wait.calls[0]
    if seed is None:
        return False
    # the same question asked directly: next(elapsed, k = a+1, exc)
    direct = policy.next(1, a + 1, exc, seed=seed)
    if len(wait.calls) != 2 or wait.calls[1][0] != idx_runtime or direct != delay:
        return False
    retry = [c for c in cmds if isinstance(c, CommandQueueEvent) and c.event is EVA and c.attempts is not None]
    if len(retry) != 1 or retry[0].delay != delay or retry[0].attempts != a + 1:
        return False
    # the retry tick, once delivered, starts an execution with attempts = a+1
    c = retry[0]
    for ws in st2.workers.values():  # make room: the tick may arrive when the step is idle
        ws.queue = []
    st2.workers["a"].in_progress = []
    t = TickAddEvent.model_construct(event=c.event, step_name=c.step_name, attempts=c.attempts, first_attempt_at=c.first_attempt_at,
                                     last_exception=c.last_exception, last_failed_at=c.last_failed_at, recovery_counts={})
    st3, _ = _reduce_tick(t, st2, 3)
    ips = st3.workers["a"].in_progress
    return len(ips) == 1 and ips[0].attempts == a + 1


SHAPE_NW = B(1, 2)


@obligation(quick=120, thorough=300, partitions_quick=[f"a == {a}" for a in range(0, 4)], partitions_thorough=[f"a == {a} and other == {o}" for a in range(0, 7) for o in range(3)],
            what="a retried event that has to QUEUE (all workers of its step busy when its delay expires) keeps its failure count: whatever ticks are "
                 "reduced meanwhile (unrelated event, another invocation finishing), when it finally runs and fails the wait strategy is asked for "
                 "the index of its (a+1)-th failure, not for a fresh one",
            bounds={"a = failures so far": "0..AMAX", "ticks reduced while it is queued": "0..2 of {unrelated add-event, waiter timeout, busy worker completes}"})
def ob_queued_retry_keeps_count(a: int, other: int, delay: int) -> bool:
    """
    pre: 0 <= a <= AMAX and 0 <= other <= 2 and 0 <= delay <= 3
    post: _
    """
    wait = _RecWait(delay)
    policy = retry_policy(wait=wait, stop=stop_never())
    st = world_ab(1, True, False, False, 0, policy=policy, t0=1)          # the only worker of step a is busy
    exc = ValueError("boom")
    # the retry tick arrives (delay expired) while the worker is busy: it is queued with its retry info
    retry = TickAddEvent.model_construct(event=EVA2, step_name="a", attempts=a, first_attempt_at=1, last_exception=(exc if a else None),
                                         last_failed_at=(1 if a else None), recovery_counts={})
    st, _ = _reduce_tick(retry, st, 2, "r")
    if len(st.workers["a"].queue) != 1:
        return False
    # unrelated ticks while it sits in the queue (every tick deep-copies the state)
    if other >= 1:
        st, _ = _reduce_tick(TickAddEvent.model_construct(event=EVB, step_name=None, attempts=None, first_attempt_at=None, last_exception=None,
                                                          last_failed_at=None, recovery_counts={}), st, 2, "r")
    if other >= 2:
        from workflows.runtime.types.ticks import TickWaiterTimeout
        st, _ = _reduce_tick(TickWaiterTimeout(step_name="a", waiter_id="nope"), st, 2, "r")
    qa = st.workers["a"].queue
    if len(qa) != 1 or (qa[0].attempts or 0) != a:
        return False
    # the busy worker completes: the queued retry gets the slot
    from workflows.runtime.types.results import StepWorkerResult
    done = TickStepResult.model_construct(step_name="a", worker_id=0, event=EVA, result=[StepWorkerResult(result=None)])
    st, _ = _reduce_tick(done, st, 3, "r")
    ips = st.workers["a"].in_progress
    if len(ips) != 1 or ips[0].event is not EVA2 or ips[0].attempts != a:
        return False
    # ... and fails again: the strategy is asked for failure a+1
    fail = TickStepResult.model_construct(step_name="a", worker_id=ips[0].worker_id, event=EVA2, result=[StepWorkerFailed.model_construct(exception=exc, failed_at=4)])
    st, cmds = _reduce_tick(fail, st, 4, "r")
    if len(wait.calls) != 1:
        return False
    direct_idx = wait.calls[0][0]
    probe = _RecWait(delay)
    retry_policy(wait=probe, stop=stop_never()).next(1, a + 1, exc, seed=1)
    again = [c for c in cmds if isinstance(c, CommandQueueEvent) and c.event is EVA2]
    return direct_idx == probe.calls[0][0] and len(again) == 1 and again[0].attempts == a + 1 and again[0].delay == delay



class _Adapter:
    run_id = "r"

    def __init__(self, now) -> None:
        self.now = now

    async def get_now(self):
        return self.now


@obligation(quick=60, thorough=200, what="real runner: a retry command with delay d issued at instant t is released by pop_due_ticks only at instants >= t+d "
                                        "(and next_wakeup_timeout asks to sleep exactly the remaining time); d <= 0 is delivered immediately",
            bounds={"now": "0..6", "delay": "-1..4", "later": "0..6"})
def ob_runner_waits_delay(now: int, delay: int, later: int) -> bool:
    """
    pre: 0 <= now <= 6 and -1 <= delay <= 4 and 0 <= later <= 6
    post: _
    """
    st = world_ab(1, False, False, False, 0)
    adapter = _Adapter(now)
    runner = _ControlLoopRunner(None, adapter, None, {}, st)  # type: ignore[arg-type]
    cmd = CommandQueueEvent(event=EVA, step_name="a", delay=delay, attempts=1, first_attempt_at=1, last_exception=None, last_failed_at=None)
    drive(runner.process_command(cmd))
    if delay <= 0:
        return len(runner.tick_buffer) == 1 and not runner.scheduled_wakeups
    if runner.tick_buffer or len(runner.scheduled_wakeups) != 1:
        return False
    t2 = now + later
    if runner.next_wakeup_timeout(t2) != max(0, now + delay - t2):
        return False
    due = runner.pop_due_ticks(t2)
    return (len(due) == 1) == (later >= delay) and all(isinstance(x, TickAddEvent) and x.attempts == 1 for x in due)


# ---------------------------------------------------------------------------------------------- Engine T


def _specs():
    fx = lambda p: H.FixedSpec(p)  # noqa: E731
    specs = [
        H.FixedSpec(),
        H.ExponentialSpec(),
        H.IncrementingSpec(),
        H.IncrementingNoMaxSpec(),
        H.ExpJitterSpec(),
        H.RandomExpSpec(),
    ]
    for n in range(2, CHAIN_MAX + 1):
        specs.append(H.ChainSpec([fx(f"c{i}_") for i in range(n)]))
    specs.append(H.ChainSpec([H.FixedSpec("c0_"), H.ExponentialSpec("c1_")]))
    specs.append(H.ChainSpec([H.IncrementingSpec("c0_"), H.FixedSpec("c1_"), H.ExpJitterSpec("c2_")]))
    specs.append(H.CombineSpec([H.FixedSpec("p0_"), H.IncrementingSpec("p1_")]))
    specs.append(H.CombineSpec([H.ExponentialSpec("p0_"), H.ChainSpec([H.FixedSpec("p1c0_"), H.FixedSpec("p1c1_")])]))
    return specs


def _observe(tr: H.Translator, spec: H.Spec, obj, k: int, seed, via_next: bool = False):
    """What is compared: the returned delay; for wait_random_exponential the range handed to uniform().
    via_next: evaluate the real ``_ComposableRetryPolicy.next(elapsed, k, error, seed=seed)`` with wait=obj, stop_never."""
    import z3

    mark = len(tr.seeded_draws)
    if via_next:
        pol = tr.construct("_ComposableRetryPolicy", retry=None, wait=obj, stop=tr.construct("stop_never"))
        o = H.OptSummary(tr.call_method(pol, "next", [z3.Real("elapsed"), k, None], {"seed": seed}))
        summ = o
        summ.raises = z3.Or(o.raises, o.is_none)  # with stop_never and retry=None, next must return a delay
        value = o.value
    else:
        summ = H.CallSummary(tr.call(obj, k, seed=seed))
        value = summ.value
    if isinstance(spec, H.RandomExpSpec):
        draws = tr.seeded_draws[mark:]
        if len(draws) != 1 or tr.module_draws:
            raise H.Untranslatable("wait_random_exponential: expected exactly one seeded draw")
        return [draws[0].arg(2), draws[0].arg(3)], summ
    return [value], summ


def _draw_term(spec: H.Spec, P, seed, U):
    """The jitter draw U(seed, 0, 0, jitter) of the additive-jitter leaf (0 when the spec has none): part of the witness."""
    import z3

    js = H.jitter_spec(spec)
    if js is None:
        return z3.RealVal(0)
    return U(seed, z3.IntVal(0), z3.RealVal(0), H.to_real(js.p(P, "jitter")))


def _reference(spec: H.Spec, j: int, P, seed, U):
    if isinstance(spec, H.RandomExpSpec):
        return [H.to_real(spec.p(P, "min")), spec.upper(j, P)]
    return [spec.ref(j, P, seed, U)]


def _native_observe(spec: H.Spec, V, k: int, seed: int, draw=None, via_next: bool = False):
    """Run the REAL strategy (or the real policy's next) natively: returns the list of compared numbers.  When the model
    fixes the value of the jitter draw (RNG = environment), `random` inside retry_policy is a stand-in returning it."""
    import workflows.retry_policy as rp

    real = spec.real(V)
    if via_next:
        pol = rp.retry_policy(wait=real, stop=rp.stop_never())
        call = lambda: pol.next(0.0, k, ValueError("x"), seed=seed)  # noqa: E731
    else:
        call = lambda: real(k, seed=seed)  # noqa: E731
    if isinstance(spec, H.RandomExpSpec) or draw is not None:
        rec = H._RecordingRandom(draw)
        saved = rp.random
        rp.random = rec
        try:
            out = call()
        finally:
            rp.random = saved
        if isinstance(spec, H.RandomExpSpec):
            return [rec.ranges[-1][0], rec.ranges[-1][1]]
        return [out]
    return [call()]


def _native_reference(spec: H.Spec, V, j: int, seed: int, draw=None):
    if isinstance(spec, H.RandomExpSpec):
        return [float(V[spec.prefix + "min"]), spec.upper_native(j, V)]
    return [spec.ref_native(j, V, seed, draw)]


def _close(a: float, b: float) -> bool:
    return abs(a - b) <= 1e-9 * max(1.0, abs(a), abs(b))


def _replay(spec: H.Spec, mode: str, shift: int = 0):
    def run(w) -> bool:
        V = H.witness_values(spec, w)
        k = int(w["k"])
        seed = int(w.get("seed", 0))
        draw = float(H.frac(w["draw"])) if w.get("draw") is not None and H.jitter_spec(spec) is not None else None
        if mode == "shape":
            sh = int(w.get("origin", shift))
            got = _native_observe(spec, V, k + sh, seed, draw)
            want = _native_reference(spec, V, k, seed, draw)
            return all(_close(g, x) for g, x in zip(got, want))
        got = _native_observe(spec, V, k, seed, draw, via_next=True)
        want = _native_reference(spec, V, k - 1, seed, draw)
        if mode == "eq":
            return all(_close(g, x) for g, x in zip(got, want))
        return all(g >= x or _close(g, x) for g, x in zip(got, want))  # no_earlier

    return run


def _setup(ctx, name, spec):
    """(tr, P, seed, obj) or None (untranslatable, recorded)."""
    import z3

    try:
        tr = H.Translator()
        P = H.declare(spec)
        obj = spec.build(tr, P)
        return tr, P, z3.Int("seed"), obj
    except H.Untranslatable as e:
        H.untranslatable(ctx, name, e)
        return None


def _origin(spec) -> int:
    """Index origin of a strategy kernel: 0 if strategy(i) == R(i) on a probe (i = 0..2), else 1 if strategy(i+1) == R(i),
    else 0 (and the recorded queries will show the mismatch).  Decided by z3, not recorded (the recorded queries re-decide
    every index for the chosen origin)."""
    import z3

    for sh in (0, 1):
        try:
            tr = H.Translator()
            P = H.declare(spec)
            obj = spec.build(tr, P)
            seed = z3.Int("seed")
            ok = True
            for i in range(0, 3):
                got, summ = _observe(tr, spec, obj, i + sh, seed)
                want = _reference(spec, i, P, seed, tr.U)
                sol = z3.Solver()
                sol.set("timeout", 20000)
                sol.add(*(H.domain(P) + spec.valid(P) + tr.axioms + [z3.Not(summ.raises), z3.Not(summ.diverges), seed >= 0]))
                sol.add(z3.Or(*[g != w for g, w in zip(got, want)]))
                if str(sol.check()) != "unsat":
                    ok = False
                    break
            if ok:
                return sh
        except H.Untranslatable:
            return 0
    return 0


@smt_obligation(quick=60, thorough=120, what="each wait strategy's __call__ (AST->z3 from the current source) computes the documented formula R of the index it is "
                                             "given, for one uniform index origin s in {0,1}: strategy(i+s) == R(i), i = 0..KMAX (clamps, growth law, chain selection, sums)",
                bounds={"index": "0..KMAX", "chain length": "2..CHAIN_MAX", "parameters": "reals, documented validity, |p| <= 1e6"})
def ob_kernel_matches_documented_formula(ctx):
    import z3

    tv = H.validate_on_package_tests(H.Translator())
    for si, spec in enumerate(_specs()):
        label = H.spec_label(spec)
        su = _setup(ctx, f"shape:{label}", spec)
        if su is None:
            continue
        tr, P, seed, obj = su
        sh = _origin(spec)
        for i in range(0, KMAX + 1):
            name = f"shape:{label}:i={i}"
            try:
                got, summ = _observe(tr, spec, obj, i + sh, seed)
            except H.Untranslatable as e:
                H.untranslatable(ctx, name, e)
                continue
            want = _reference(spec, i, P, seed, tr.U)
            variables = dict(P)
            variables.update({"k": z3.IntVal(i), "seed": seed, "strategy": z3.IntVal(si), "draw": _draw_term(spec, P, seed, tr.U), "origin": z3.IntVal(sh)})
            H.check_robust(ctx, name, assumptions=H.domain(P) + spec.valid(P) + tr.axioms + [z3.Not(summ.raises), z3.Not(summ.diverges), seed >= 0],
                           neg_exact=z3.Or(*[g != w for g, w in zip(got, want)]), neg_margin=z3.Or(*[H.differs(g, w) for g, w in zip(got, want)]),
                           variables=variables, replay=_replay(spec, "shape", sh),
                           note=f"index origin {sh}; translation validated on {tv['validated']} literal cases of the package tests")


@smt_obligation(quick=90, thorough=180, what="the delay used for the k-th retry = real _ComposableRetryPolicy.next(., k, .) with that wait strategy (see ob_retry_delay_is_next_of_failure_count), "
                                             "equals the delay DOCUMENTED for the k-th retry R(k-1) [eq] and is not shorter [no_earlier]; first retry = first chain entry / multiplier / initial / start",
                bounds={"k": "1..KMAX", "chain length": "2..CHAIN_MAX", "parameters": "reals, documented validity, |p| <= 1e6"})
def ob_kth_retry_uses_documented_delay(ctx):
    import z3

    for si, spec in enumerate(_specs()):
        label = H.spec_label(spec)
        su = _setup(ctx, f"align:{label}", spec)
        if su is None:
            continue
        tr, P, seed, obj = su
        for k in range(1, KMAX + 1):
            try:
                got, summ = _observe(tr, spec, obj, k, seed, via_next=True)
            except H.Untranslatable as e:
                H.untranslatable(ctx, f"align:{label}:k={k}", e)
                continue
            want = _reference(spec, k - 1, P, seed, tr.U)
            same_index = _reference(spec, k, P, seed, tr.U)
            visible = z3.Or(*[a != b for a, b in zip(want, same_index)])
            variables = dict(P)
            variables.update({"k": z3.IntVal(k), "seed": seed, "strategy": z3.IntVal(si), "index_shift_visible": visible,
                              "draw": _draw_term(spec, P, seed, tr.U)})
            assumptions = H.domain(P) + spec.valid(P) + tr.axioms + [z3.Not(summ.raises), z3.Not(summ.diverges), seed >= 0]
            H.check_robust(ctx, f"eq:{label}:k={k}", assumptions=assumptions, neg_exact=z3.Or(*[g != w for g, w in zip(got, want)]),
                           neg_margin=z3.Or(*[H.differs(g, w) for g, w in zip(got, want)]), variables=variables, replay=_replay(spec, "eq"))
            H.check_robust(ctx, f"no_earlier:{label}:k={k}", assumptions=assumptions, neg_exact=z3.Or(*[g < w for g, w in zip(got, want)]),
                           neg_margin=z3.Or(*[H.clearly_less(g, w) for g, w in zip(got, want)]), variables=variables, replay=_replay(spec, "no_earlier"))


def replay_known(name, witness):
    """name = 'ob_xxx.<query name>' (a replay file) or 'ob_xxx' (known finding; witness carries 'query')."""
    q = name.split(".", 1)[1] if "." in name else witness.get("query")
    mode, label = q.split(":")[0], q.split(":")[1]
    for spec in _specs():
        if H.spec_label(spec) == label:
            return _replay(spec, "shape" if mode == "shape" else mode)(witness)
    raise KeyError(label)


# ------------------------------------------------------------------------------------------------ durations given as timedelta
# Every duration parameter of the wait strategies is `int | float | timedelta`.  The documented delay of a strategy built with a timedelta is
# the one of the same strategy built with that many seconds.
from datetime import timedelta as _td  # noqa: E402

from workflows.retry_policy import wait_exponential as _wexp, wait_fixed as _wfixed, wait_incrementing as _wincr  # noqa: E402

_TD_DAYS = [0, 1, 2, -1]
_TD_SECS = [0, 1, 30]
_TD_US = [0, 500000]


@obligation(quick=90, thorough=200, partitions_quick=[f"kind == {k}" for k in range(3)],
            what="a wait strategy whose duration parameters are given as timedelta (days / seconds / microseconds components symbolic, negative "
                 "included) documents and returns, for every attempt, the delay of the same strategy given the equal number of seconds",
            bounds={"strategies": "wait_fixed / wait_incrementing(max=...) / wait_exponential(max=...)", "days": "-1..2", "seconds": "0, 1, 30",
                    "microseconds": "0 / 500000", "attempts": "0..4"})
def ob_timedelta_parameters(kind: int, di: int, si: int, ui: int, att: int) -> bool:
    """
    pre: 0 <= kind <= 2 and 0 <= di < len(_TD_DAYS) and 0 <= si < len(_TD_SECS) and 0 <= ui < len(_TD_US) and 0 <= att <= 4
    post: _
    """
    kind, att = H.fork_int(kind, 0, 2), H.fork_int(att, 0, 4)
    d, s, u = _TD_DAYS[H.fork_int(di, 0, len(_TD_DAYS) - 1)], _TD_SECS[H.fork_int(si, 0, len(_TD_SECS) - 1)], _TD_US[H.fork_int(ui, 0, len(_TD_US) - 1)]
    as_td = _td(days=d, seconds=s, microseconds=u)
    secs = d * 86400 + s + u / 1e6
    if kind == 0:
        a, b = _wfixed(as_td), _wfixed(secs)
    elif kind == 1:
        a, b = _wincr(start=1, increment=100000, max=as_td), _wincr(start=1, increment=100000, max=secs)
    else:
        a, b = _wexp(multiplier=1000, max=as_td), _wexp(multiplier=1000, max=secs)
    return a(att) == b(att)


# ------------------------------------------------------------------------------------------------ documented aliases
from workflows.retry_policy import wait_full_jitter as _wfj, wait_random_exponential as _wre  # noqa: E402


@obligation(quick=60, thorough=120,
            what="wait_full_jitter is documented as an alias for wait_random_exponential: built with the same multiplier / exp_base / max / min it "
                 "is configured identically and, for the same seed, returns the same delay for every attempt - in particular never less than min",
            bounds={"multiplier": "1..2", "max": "1..60", "min": "0..2 (int or half)", "attempts": "0..4", "seed": "0..3"})
def ob_full_jitter_alias(mu: int, mx: int, mn2: int, att: int, seed: int) -> bool:
    """
    pre: 1 <= mu <= 2 and 1 <= mx <= 3 and 0 <= mn2 <= 4 and 0 <= att <= 4 and 0 <= seed <= 3
    post: _
    """
    mu, mx, mn2 = H.fork_int(mu, 1, 2), [1, 5, 60][H.fork_int(mx, 1, 3) - 1], H.fork_int(mn2, 0, 4)
    att, seed = H.fork_int(att, 0, 4), H.fork_int(seed, 0, 3)
    mn = mn2 / 2
    from vlib.h_tools import untraced

    with untraced():        # the seeded random.Random must be the real one (CrossHair would make its draws symbolic)
        a = _wfj(multiplier=mu, exp_base=2, max=mx, min=mn)
        b = _wre(multiplier=mu, exp_base=2, max=mx, min=mn)
        da, db = a(att, seed=seed), b(att, seed=seed)
        return da == db and (da >= mn or mn > mx)
