"""C11 — replaying the recorded tick log reproduces the live run state (timestamps aside).

Shape of the argument (2-safety, inductive):
* the live engine holds ``L_k = reduce(t_k, L_{k-1}, now_k, run_id)``; ``ctx.to_dict()`` / ``running_steps()`` /
  ``context_from_ticks`` compute ``R_k = reduce(t_k, R_{k-1}, now'_k, None)`` with *other* clock readings and no run id
  (``rebuild_state_from_ticks`` / ``replay_ticks_stream``).  If ``strip(L_{k-1}) == strip(R_{k-1})`` (equal up to
  timestamps) then ``strip(L_k) == strip(R_k)`` — one step from an arbitrary pair of REP states that differ only in
  timestamps, for every tick kind, covers tick histories of any length (``ob_replay_step_*``);
* base case: both sides start from the same initial state and both apply ``rewind_in_progress`` first
  (``ob_rewind_base``): the rewind is insensitive to the clock too;
* the real ``rebuild_state_from_ticks`` / ``replay_ticks_stream`` are exactly this fold (``ob_rebuild_is_fold``): run on a
  symbolic tick script they give the same stripped state as the live fold with an independent clock, and the exit command
  ``replay_ticks_stream`` reports is the one the live reducer emitted;
* thorough: whole runs of the real ``Workflow.run()`` loop under symbolic schedules — after the run (and at a symbolic
  point in the middle) ``ExternalContext._state`` equals the live runner's state modulo timestamps."""
from __future__ import annotations

import vlib.boot  # noqa: F401
from vlib.boot import B, drive
from vlib.ob import obligation
from vlib.h_handlers import conc, concb, native  # noqa: F401  (importing it installs the native-pydantic-constructor speed-up)
from vlib.world import (
    EVA, EVB, EVC, EvA, EvB, EvC, MYSTOP, START, STOP, StubPolicy, rep_R1, rep_R2, world_ab, world_ab_valid,
)

import workflows.runtime.control_loop as cl_mod
from workflows.retry_policy import retry_policy, stop_after_attempt, stop_after_delay, wait_fixed, wait_random
from workflows.runtime.control_loop import _reduce_tick, rebuild_state_from_ticks, replay_ticks_stream, rewind_in_progress
from workflows.runtime.types.commands import CommandCompleteRun, CommandFailWorkflow, CommandHalt
from workflows.runtime.types.results import (
    AddCollectedEvent, AddWaiter, DeleteCollectedEvent, DeleteWaiter, StepWorkerFailed, StepWorkerResult,
)
from workflows.runtime.types.ticks import (
    TickAddEvent, TickCancelRun, TickIdleCheck, TickPublishEvent, TickStepResult, TickTimeout, TickWaiterTimeout,
)

ENCODED = [
    "workflows.runtime.control_loop:_reduce_tick",
    "workflows.runtime.control_loop:_process_step_result_tick",
    "workflows.runtime.control_loop:_process_add_event_tick",
    "workflows.runtime.control_loop:_process_waiter_timeout_tick",
    "workflows.runtime.control_loop:_process_timeout_tick",
    "workflows.runtime.control_loop:_process_cancel_run_tick",
    "workflows.runtime.control_loop:_add_or_enqueue_event",
    "workflows.runtime.control_loop:rewind_in_progress",
    "workflows.runtime.control_loop:rebuild_state_from_ticks",
    "workflows.runtime.control_loop:replay_ticks_stream",
    "workflows.retry_policy:_ComposableRetryPolicy.next",
    "workflows.retry_policy:stop_after_delay.__call__",
    "workflows.context.external_context:ExternalContext._state",
]
ASSUMES = [
    "pre-states satisfy REP (C01) and differ ONLY in timestamps (first_attempt_at of running / queued work; for work that "
    "was already retried (attempts >= 1) the first-attempt stamp travels in the recorded TickAddEvent, so it is EQUAL on "
    "both sides and only first attempts are stamped from the replay's own clock); the two clock "
    "readings now1 (live) and now2 (replay) are independent symbolic ints; live run_id = 'r', replay run_id = None "
    "(what rebuild_state_from_ticks / replay_ticks_stream pass)",
    "'timestamps aside' = first_attempt_at / last_failed_at are not compared; everything else is: running flag, per step "
    "queue (event identity, attempts, recovery counts), in-progress (slot, event identity, attempts, snapshot buffers and "
    "waiters), collect buffers, waiters (id, event, type, resolved event, timed-out flag)",
    "retry policies: none / attempt-based stub / real retry_policy(stop_after_attempt) / real stop_after_delay / real "
    "jittered wait (wait_random) — user policies are environment; a policy that reads elapsed time is the class of KF-C11-1",
    "ob_rebuild_is_fold: control_loop.time is replaced by a harness clock returning the symbolic replay instant",
]
OUTSIDE = ["num_workers > 3, queue > 2, more than two steps", "DBOS runtime replay (C27)", "timers / tick_buffer held by the runner (C13/C14)"]

QMAX = B(1, 2)
TS = B(3, 6)   # timestamp / clock range of the cheap obligations
TSF = B(2, 3)  # ... of the failure result (its elapsed time is realised at the pydantic boundary: one path per value)


# ----------------------------------------------------------------------------------------------- canonical form


def _ev(e):
    return id(e) if e is not None else None


def _waiters(ws):
    return [(w.waiter_id, _ev(w.event), w.waiting_for_event, _ev(w.resolved_event), bool(w.timed_out), bool(w.has_requirements)) for w in ws]


def _bufs(d):
    return sorted((k, [_ev(e) for e in v]) for k, v in d.items())


def strip(state):
    """Everything the statement lists, without timestamps."""
    out = [bool(state.is_running)]
    for name in sorted(state.workers):
        ws = state.workers[name]
        q = [(_ev(a.event), a.attempts or 0, sorted(a.recovery_counts.items()), _ev(a.last_exception)) for a in ws.queue]
        ip = sorted(
            (x.worker_id, _ev(x.event), x.attempts, sorted(x.recovery_counts.items()), _ev(x.last_exception),
             _bufs(x.shared_state.collected_events), _waiters(x.shared_state.collected_waiters))
            for x in ws.in_progress
        )
        out.append((name, q, ip, _bufs(ws.collected_events), _waiters(ws.collected_waiters)))
    return out


EXC = ValueError("boom")


def _policy(pol: int, n: int, d: int):
    if pol == 0:
        return None
    if pol == 1:
        return StubPolicy(1)  # always retry immediately
    if pol == 2:
        return retry_policy(wait=wait_fixed(1), stop=stop_after_attempt(n))
    if pol == 3:
        return retry_policy(wait=wait_fixed(0), stop=stop_after_delay(d))
    return retry_policy(wait=wait_random(0, 1), stop=stop_after_attempt(n))


def _result(kind: int, failed_at: int):
    if kind == 0:
        return [StepWorkerResult(result=None)]
    if kind == 1:
        return [StepWorkerResult(result=EVB)]
    if kind == 2:
        return [StepWorkerFailed.model_construct(exception=EXC, failed_at=failed_at)]
    if kind == 3:
        return [AddCollectedEvent(event_id="buf", event=EVA)]
    if kind == 4:
        return [AddWaiter(waiter_id="w1", event_type=EvC, timeout=None)]
    if kind == 5:
        return [DeleteCollectedEvent(event_id="buf"), StepWorkerResult(result=EVB)]
    if kind == 6:
        return [DeleteWaiter(waiter_id="w1"), StepWorkerResult(result=None)]
    if kind == 7:
        return [StepWorkerResult(result=STOP)]
    return [AddWaiter(waiter_id="w2", event_type=EvC, timeout=5, waiter_event=EVB)]


# ----------------------------------------------------------------------------------------------- inductive step




@obligation(quick=200, thorough=500,
            partitions_quick=[f"kind == {k}" for k in range(9) if k != 2] + [f"kind == 2 and pol == {p} and att {a}" for p in (0, 1, 2, 4) for a in ("== 0", ">= 1")] + [f"kind == 2 and pol == 3 and nw == {nn} and att == {aa} and d == {dd}" for nn in (1, 2, 3) for aa in (1, 2) for dd in (0, 1, 2)],
            partitions_thorough=[f"kind == {k} and nw == {n}" for k in range(9) if k != 2 for n in (1, 2, 3)]
            + [f"kind == 2 and pol == {p} and att == {a} and nw == {n}" for p in (0, 1, 2, 4) for a in (0, 1, 2) for n in (1, 2, 3)]
            + [f"kind == 2 and pol == 3 and nw == {n} and att == {a} and d == {d} and q == {qq}" for n in (1, 2, 3) for a in (1, 2) for d in range(4) for qq in (0, 1)],  # (pol 3, att 0) is the class of KF-C11-1; the cover check accepts it as excluded
            what="TickStepResult (9 result kinds incl. failure with 5 policy kinds): live reduce (now1, run_id) and replay reduce "
                 "(now2, None) from states equal up to timestamps give states equal up to timestamps",
            bounds={"num_workers": "1..3", "queue": "0..QMAX", "attempts": "0..2", "timestamps/now": "0..6 each, independent",
                    "policy": "none / stub / stop_after_attempt(n<=3) / stop_after_delay(d<=4) / wait_random+stop_after_attempt"})
def ob_replay_step_result(nw: int, b0: bool, b1: bool, b2: bool, q: int, wid: int, kind: int, pol: int, n: int, d: int, att: int,
                          live: int, snap: int, t1: int, t2: int, now1: int, now2: int, fa: int) -> bool:
    """
    pre: world_ab_valid(nw, b0, b1, b2, q) and q <= QMAX
    pre: 0 <= wid <= 2 and (b0 if wid == 0 else (b1 if wid == 1 else b2))
    pre: 0 <= kind <= 8 and 0 <= pol <= 4 and 1 <= n <= 3 and 0 <= d <= 4 and 0 <= att <= 2 and 0 <= snap <= live <= 1
    pre: 0 <= t1 <= 6 and 0 <= t2 <= 6 and t1 <= fa <= now1 <= 6 and 0 <= now2 <= 6
    pre: kind == 2 or (pol == 0 and n == 1 and d == 0)
    pre: kind != 2 or (t1 <= TSF and t2 <= TSF and now1 <= TSF and now2 <= TSF and d <= TSF and n <= 2 and q <= 1)
    pre: att == 0 or t1 == t2
    post: _
    """
    if pol == 3:
        # stop_after_delay compares float elapsed times: with symbolic instants every path costs seconds of non-linear float solving and
        # the partition never finishes; the instants are small ints, so let the solver pick each value (one cheap path per combination)
        d, t1, t2, now1, now2, fa = conc(d, 0, 4), conc(t1, 0, 6), conc(t2, 0, 6), conc(now1, 0, 6), conc(now2, 0, 6), conc(fa, 0, 6)
    policy = _policy(pol, n, d)
    wk = 1 if kind == 6 else 0
    s1 = world_ab(nw, b0, b1, b2, q, att=att, policy=policy, buf_live=live, buf_snap=snap, wait_kind=wk, t0=t1)
    s2 = world_ab(nw, b0, b1, b2, q, att=att, policy=policy, buf_live=live, buf_snap=snap, wait_kind=wk, t0=t2)
    tick = TickStepResult.model_construct(step_name="a", worker_id=wid, event=EVA, result=_result(kind, fa))
    l, _ = _reduce_tick(tick, s1, now1, "r")
    r, _ = _reduce_tick(tick, s2, now2, None)
    return strip(l) == strip(r)


@obligation(quick=120, thorough=400, partitions_quick=[f"evk == {e} and retried == False" for e in range(4)] + [f"evk == {e} and retried == True and wk {w}" for e in range(4) for w in ("<= 1", ">= 2")],
            partitions_thorough=[f"evk == {e} and nw == {n} and retried == {r}" for e in range(4) for n in (1, 2, 3) for r in (False, True)],
            what="TickAddEvent (plain / targeted / waiter-resolving / retried with attempts and first_attempt_at / StartEvent): "
                 "live and replay reduce agree up to timestamps",
            bounds={"num_workers": "1..3", "queue": "0..QMAX", "waiter": "none/pending/resolved/timed-out"})
def ob_replay_add_event(nw: int, b0: bool, b1: bool, b2: bool, q: int, wk: int, evk: int, targeted: bool, retried: bool, bb: bool,
                        bq: int, t1: int, t2: int, now1: int, now2: int, running: bool) -> bool:
    """
    pre: world_ab_valid(nw, b0, b1, b2, q, bb, bq) and q <= QMAX and bq <= 1
    pre: 0 <= wk <= 3 and 0 <= evk <= 3
    pre: 0 <= t1 <= now1 <= TS and 0 <= t2 <= TS and 0 <= now2 <= TS
    post: _
    """
    s1 = world_ab(nw, b0, b1, b2, q, wait_kind=wk, b_busy=bb, b_q=bq, t0=t1, is_running=running)
    s2 = world_ab(nw, b0, b1, b2, q, wait_kind=wk, b_busy=bb, b_q=bq, t0=t2, is_running=running)
    ev = EVA if evk == 0 else (EVB if evk == 1 else (EVC if evk == 2 else START))
    tick = TickAddEvent.model_construct(event=ev, step_name=("a" if targeted and evk != 1 and evk != 3 else None),
                                        attempts=(1 if retried else None), first_attempt_at=(t1 if retried else None),
                                        last_exception=(EXC if retried else None), last_failed_at=(t1 if retried else None),
                                        recovery_counts=({"h": 1} if retried else {}))
    l, _ = _reduce_tick(tick, s1, now1, "r")
    r, _ = _reduce_tick(tick, s2, now2, None)
    return strip(l) == strip(r)


@obligation(quick=90, thorough=300, partitions_quick=[f"tk == {k}" for k in range(5)], partitions_thorough=[f"tk == {k}" for k in range(5)],
            what="TickWaiterTimeout / TickCancelRun / TickTimeout / TickPublishEvent / TickIdleCheck: live and replay reduce agree",
            bounds={"num_workers": "1..3", "queue": "0..QMAX"})
def ob_replay_other_ticks(nw: int, b0: bool, b1: bool, b2: bool, q: int, wk: int, tk: int, t1: int, t2: int, now1: int, now2: int) -> bool:
    """
    pre: world_ab_valid(nw, b0, b1, b2, q) and q <= QMAX and 0 <= wk <= 3 and 0 <= tk <= 4
    pre: 0 <= t1 <= now1 <= TS and 0 <= t2 <= TS and 0 <= now2 <= TS
    post: _
    """
    s1 = world_ab(nw, b0, b1, b2, q, wait_kind=wk, t0=t1)
    s2 = world_ab(nw, b0, b1, b2, q, wait_kind=wk, t0=t2)
    if tk == 0:
        tick = TickWaiterTimeout(step_name="a", waiter_id="w1")
    elif tk == 1:
        tick = TickCancelRun()
    elif tk == 2:
        tick = TickTimeout(timeout=1.0)
    elif tk == 3:
        tick = TickPublishEvent(event=EVB)
    else:
        tick = TickIdleCheck()
    l, _ = _reduce_tick(tick, s1, now1, "r")
    r, _ = _reduce_tick(tick, s2, now2, None)
    return strip(l) == strip(r)


@obligation(quick=120, thorough=300, partitions_quick=[f"nw == {n} and bb == {b}" for n in (1, 2, 3) for b in (False, True)],
            partitions_thorough=[f"nw == {n} and bb == {b} and att == {a}" for n in (1, 2, 3) for b in (False, True) for a in (0, 1, 2)],
            what="base case: rewind_in_progress (applied first by the live runner AND by every replay) is insensitive to the clock "
                 "and to the pre-state's timestamps, from ANY resumed shape")
def ob_rewind_base(nw: int, b0: bool, b1: bool, b2: bool, q: int, bb: bool, bq: int, att: int, t1: int, t2: int, now1: int, now2: int) -> bool:
    """
    pre: 1 <= nw <= 3 and 0 <= q <= QMAX and 0 <= bq <= QMAX and 0 <= att <= B(1, 2)
    pre: 0 <= t1 <= TS and 0 <= t2 <= TS and 0 <= now1 <= TS and 0 <= now2 <= TS
    post: _
    """
    s1 = world_ab(nw, b0, b1, b2, q, b_busy=bb, b_q=bq, att=att, t0=t1)
    s2 = world_ab(nw, b0, b1, b2, q, b_busy=bb, b_q=bq, att=att, t0=t2)
    l, _ = rewind_in_progress(s1, now1)
    r, _ = rewind_in_progress(s2, now2)
    return strip(l) == strip(r) and rep_R1(l) and rep_R2(l)


# ----------------------------------------------------------------------------------------------- the real fold


class _Clock:
    def __init__(self, now) -> None:
        self.now = now

    def time(self):
        return self.now


def _script_tick(k: int, fa: int):
    """A small closed tick vocabulary over steps a (accepts EvA) and b (accepts EvB, StartEvent)."""
    if k == 0:
        return TickAddEvent(event=EVA)
    if k == 1:
        return TickAddEvent(event=EVB)
    if k == 2:
        return ("res_a", [StepWorkerResult(result=EVB)])
    if k == 3:
        return ("res_a", [StepWorkerFailed.model_construct(exception=EXC, failed_at=fa)])
    if k == 4:
        return ("res_b", [StepWorkerResult(result=None)])
    if k == 5:
        return ("res_b", [StepWorkerResult(result=STOP)])
    if k == 6:
        return TickCancelRun()
    if k == 8:
        return ("res_a", [AddWaiter(waiter_id="w9", event_type=EvC, timeout=1)])   # the step parks in a wait with a 1 s timeout
    if k == 9:
        return TickWaiterTimeout(step_name="a", waiter_id="w9")                      # ... and its timer fires (a later tick = a later instant)
    return TickTimeout(timeout=1.0)


def _materialise(state, item):
    """Turn a script item into a tick that is legal in ``state`` (a result tick needs a running worker), else None."""
    if isinstance(item, tuple):
        step = "a" if item[0] == "res_a" else "b"
        ips = sorted(state.workers[step].in_progress, key=lambda x: x.worker_id)
        if not ips:
            return None
        return TickStepResult.model_construct(step_name=step, worker_id=ips[0].worker_id, event=ips[0].event, result=item[1])
    return item


async def _aiter(items):
    for x in items:
        yield x


N_SCRIPT = B(3, 4)
THOROUGH_FOLD = B(False, True)


@obligation(quick=240, thorough=900,
            partitions_quick=[f"k0 == {a} and k1 == {b}" for a in (0, 1) for b in range(10)],
            partitions_thorough=[f"k0 == {a} and k1 == {b} and pol == {p}" for a in (0, 1) for b in range(10) for p in (0, 2)],
            what="the real rebuild_state_from_ticks and replay_ticks_stream on a symbolic tick script equal the live fold (own clock, run id) "
                 "up to timestamps after EVERY prefix; the exit command replay reports is the live reducer's last exit command",
            bounds={"script": "N_SCRIPT ticks from a 10-tick vocabulary (adds, results, failure, stop, cancel, timeout, park in a wait with a timeout, waiter timer fires)", "num_workers(a)": "1..2",
                    "policy": "none / stop_after_attempt(2)", "clocks": "live clock = tick index (1,2,..), replay instant symbolic 0..TS"})
def ob_rebuild_is_fold(nw: int, pol: int, k0: int, k1: int, k2: int, k3: int, rnow: int) -> bool:
    """
    pre: 1 <= nw <= 2 and pol in (0, 2)
    pre: 0 <= k0 <= 1 and 0 <= k1 <= 9 and 0 <= k2 <= 9 and 0 <= k3 <= 9 and (N_SCRIPT >= 4 or k3 == 0)
    pre: 0 <= rnow <= TS and (THOROUGH_FOLD or rnow == 0 or rnow == TS)
    post: _
    """
    nw, pol, k0, k1, k2, k3 = conc(nw, 1, 2), conc(pol, 0, 2), conc(k0, 0, 1), conc(k1, 0, 9), conc(k2, 0, 9), conc(k3, 0, 9)
    policy = _policy(pol, 2, 0)
    init = world_ab(nw, False, False, False, 0, policy=policy, is_running=True)
    ks = [k0, k1, k2, k3][:N_SCRIPT]
    cs = [1, 2, 3, 4]
    live = init
    log = []
    last_exit = None
    saved = cl_mod.time
    cl_mod.time = _Clock(rnow)
    try:
        for i in range(len(ks)):
            if not live.is_running and ks[i] not in (0, 1):
                break
            tick = _materialise(live, _script_tick(ks[i], cs[i]))
            if tick is None:
                continue
            live, cmds = _reduce_tick(tick, live, cs[i], "r")
            for c in cmds:
                if isinstance(c, (CommandCompleteRun, CommandFailWorkflow, CommandHalt)):
                    last_exit = c
            log.append(tick)
            rebuilt = rebuild_state_from_ticks(init, list(log))
            if strip(rebuilt) != strip(live):
                return False
        rr = drive(replay_ticks_stream(init, _aiter(list(log))))
    finally:
        cl_mod.time = saved
    if strip(rr.state) != strip(live):
        return False
    if (rr.exit_command is None) != (last_exit is None):
        return False
    if last_exit is not None:
        if type(rr.exit_command) is not type(last_exit):
            return False
        if isinstance(last_exit, CommandCompleteRun) and rr.exit_command.result is not last_exit.result:
            return False
        if isinstance(last_exit, (CommandFailWorkflow, CommandHalt)) and type(rr.exit_command.exception) is not type(last_exit.exception):
            return False
    return True


# ----------------------------------------------------------------------------------------------- purity


def _full(state):
    """Canonical form INCLUDING timestamps and slot order (used to detect in-place mutation of an input state)."""
    out = [bool(state.is_running)]
    for name in sorted(state.workers):
        ws = state.workers[name]
        q = [(_ev(a.event), a.attempts, a.first_attempt_at, _ev(a.last_exception), a.last_failed_at, sorted(a.recovery_counts.items())) for a in ws.queue]
        ip = [(x.worker_id, _ev(x.event), x.attempts, x.first_attempt_at, _ev(x.last_exception), x.last_failed_at, sorted(x.recovery_counts.items()),
               _bufs(x.shared_state.collected_events), _waiters(x.shared_state.collected_waiters)) for x in ws.in_progress]
        out.append((name, q, ip, _bufs(ws.collected_events), _waiters(ws.collected_waiters)))
    return out


@obligation(quick=150, thorough=300, partitions_quick=[f"fn == {f} and nw == {n}" for f in range(4) for n in (1, 2, 3)],
            partitions_thorough=[f"fn == {f} and nw == {n} and q == {q}" for f in range(4) for n in (1, 2, 3) for q in (0, 1, 2)],
            what="replay never disturbs what it replays from: rewind_in_progress / _reduce_tick / rebuild_state_from_ticks leave their INPUT state "
                 "untouched (the live runner and every replay share one init_state object), and rebuilding twice from the same init state and "
                 "log gives the same state",
            bounds={"num_workers": "1..3", "queue": "0..2", "resumed shapes": "any busy-slot pattern (not only REP)", "function": "rewind / reduce(add) / reduce(result) / rebuild x2"})
def ob_replay_is_pure(nw: int, b0: bool, b1: bool, b2: bool, q: int, bb: bool, bq: int, att: int, fn: int, wk: int) -> bool:
    """
    pre: 1 <= nw <= 3 and 0 <= q <= 2 and 0 <= bq <= 1 and 0 <= att <= 1 and 0 <= fn <= 3 and 0 <= wk <= 2
    pre: (not b1 or nw >= 2) and (not b2 or nw >= 3)
    post: _
    """
    nw, q, bq, att, fn, wk = conc(nw, 1, 3), conc(q, 0, 2), conc(bq, 0, 1), conc(att, 0, 1), conc(fn, 0, 3), conc(wk, 0, 2)
    b0, b1, b2, bb = concb(b0), concb(b1), concb(b2), concb(bb)
    st = world_ab(nw, b0, b1, b2, q, b_busy=bb, b_q=bq, att=att, wait_kind=wk, t0=1, q_event=None)
    # distinguishable queue / in-progress entries: give every entry its own event object
    pool = [EVA, EvA(), EvA(), EvA(), EvA(), EvA()]
    k = 0
    for x in st.workers["a"].in_progress:
        x.event = pool[k]
        k += 1
    for a in st.workers["a"].queue:
        a.event = pool[k]
        k += 1
    before = _full(st)
    saved = cl_mod.time
    cl_mod.time = _Clock(2)
    try:
        if fn == 0:
            rewind_in_progress(st, 2)
        elif fn == 1:
            _reduce_tick(TickAddEvent(event=EVA), st, 2, "r")
        elif fn == 2:
            ips = st.workers["a"].in_progress
            if ips:
                _reduce_tick(TickStepResult.model_construct(step_name="a", worker_id=ips[0].worker_id, event=ips[0].event,
                                                            result=[StepWorkerResult(result=None)]), st, 2, "r")
        else:
            one = rebuild_state_from_ticks(st, [TickAddEvent(event=EVB)])
            if _full(st) != before:
                return False
            two = rebuild_state_from_ticks(st, [TickAddEvent(event=EVB)])
            if strip(one) != strip(two):
                return False
    finally:
        cl_mod.time = saved
    return _full(st) == before


# ----------------------------------------------------------------------------------------------- whole run


from workflows import Context, Workflow, step  # noqa: E402
from workflows.events import Event, StartEvent, StopEvent  # noqa: E402
from vlib.h_idle import install_speedups  # noqa: E402

install_speedups()  # tooling only (logging off, native reflection of workflow classes); every solver decision is taken before the scenario


class RJob(Event):
    i: int


class RDone(Event):
    i: int


@obligation(quick=240, thorough=900,
            partitions_quick=[f"c0 == {a} and c1 == {b}" for a in range(3) for b in range(3)],
            partitions_thorough=[f"c0 == {a} and c1 == {b} and c2 == {c}" for a in range(3) for b in range(3) for c in range(3)],
            what="whole run of the real run() loop under a symbolic schedule (fan-out to a 2-worker step that may fail once and be retried, "
                 "collect join): at EVERY scheduling point the state the handler's context rebuilds from the recorded ticks "
                 "(ExternalContext._state, what ctx.to_dict()/running_steps() report) equals the live runner's state up to timestamps",
            bounds={"schedule decisions": "4 (quick) / 6 (thorough), 3 options each", "workers": 2, "failures": "0..1 (attempt-based policy)"})
def ob_whole_run_replay(nfail: int, c0: int, c1: int, c2: int, c3: int, c4: int, c5: int) -> bool:
    """
    pre: 0 <= nfail <= 1 and 0 <= c0 <= 2 and 0 <= c1 <= 2 and 0 <= c2 <= 2 and 0 <= c3 <= 2 and 0 <= c4 <= 2 and 0 <= c5 <= 2
    pre: THOROUGH_FOLD or (c4 == 0 and c5 == 0)
    post: _
    """
    import asyncio

    from vlib.sched import Env, SymAdapter, SymRuntime, run_loop

    nfail, c0, c1, c2, c3, c4, c5 = conc(nfail, 0, 1), conc(c0, 0, 2), conc(c1, 0, 2), conc(c2, 0, 2), conc(c3, 0, 2), conc(c4, 0, 2), conc(c5, 0, 2)
    env = Env([c0, c1, c2, c3, c4, c5])
    book = {"fails": 0, "runner": None, "handler": None, "checks": 0, "bad": None}

    class SpyRunner(cl_mod._ControlLoopRunner):
        def __init__(self, *a, **k):
            super().__init__(*a, **k)
            book["runner"] = self

    def compare(where):
        r, h = book["runner"], book["handler"]
        if r is None or h is None or book["bad"] is not None:
            return
        live = strip(r.state)
        # the runner may hold ticks it has not reduced yet: the recorded log only covers what it HAS reduced, and so does r.state
        rebuilt = strip(h.ctx._face._state)
        book["checks"] += 1
        if live != rebuilt:
            book["bad"] = where

    class CmpAdapter(SymAdapter):
        async def wait_for_next_task(self, running, pending, timeout=None):
            compare("scheduling point")
            return await super().wait_for_next_task(running, pending, timeout)

    class Rt(SymRuntime):
        def get_internal_adapter(self, workflow):
            return CmpAdapter(super().get_internal_adapter(workflow), self.env)

    class W(Workflow):
        @step
        async def start(self, ctx: Context, ev: StartEvent) -> RJob | None:
            ctx.send_event(RJob(i=0))
            return RJob(i=1)

        @step(num_workers=2, retry_policy=retry_policy(wait=wait_fixed(0), stop=stop_after_attempt(3)))
        async def work(self, ctx: Context, ev: RJob) -> RDone:
            await env.gate(ev.i)
            if ev.i == 0 and book["fails"] < nfail:
                book["fails"] += 1
                raise ValueError("transient")
            return RDone(i=ev.i)

        @step
        async def join(self, ctx: Context, ev: RDone) -> StopEvent | None:
            got = ctx.collect_events(ev, [RDone, RDone])
            if got is None:
                return None
            return StopEvent(result=sorted(e.i for e in got))

    res: list = []

    async def main():
        h = W(timeout=None, runtime=Rt(env)).run(run_id="r")
        book["handler"] = h
        res.append(await h)
        compare("after the run")

    saved_runner, saved_time = cl_mod._ControlLoopRunner, cl_mod.time
    cl_mod._ControlLoopRunner = SpyRunner
    cl_mod.time = _Clock(7)   # replay's own clock (rebuild_state_from_ticks reads time.time())
    try:
        run_loop(main)
    finally:
        cl_mod._ControlLoopRunner, cl_mod.time = saved_runner, saved_time
    return res == [[0, 1]] and book["bad"] is None and book["checks"] >= 3


# ------------------------------------------------------------------------------------------------ a continued run and its own tick log
# ctx.to_dict() / running_steps() of a handler rebuild the state from the run's init state + recorded ticks.  A context that is
# CONTINUED (workflow.run(ctx=handler.ctx, ...)) starts a new run with a new init state; its log must be its own.  BasicRuntime refuses
# a run id that is already known; if a tree accepts it, the continued run must still report its own state.


class CBatch(StartEvent):
    batch: list


class CWork(Event):
    n: int


_CGATES: dict = {}
_CENTERED: dict = {}


class _FirstWins(Workflow):
    @step
    async def start(self, ctx: Context, ev: CBatch) -> CWork | None:
        for n in ev.batch:
            ctx.send_event(CWork(n=n))
        return None

    @step(num_workers=1)
    async def work(self, ctx: Context, ev: CWork) -> StopEvent:
        import asyncio

        _CENTERED.setdefault(ev.n, asyncio.Event()).set()
        if ev.n in _CGATES:
            await _CGATES[ev.n].wait()
        return StopEvent(result=ev.n)


def _nums(items) -> list:
    import json

    out = []
    for item in items:
        s = item["event"] if isinstance(item, dict) else item
        out.append(json.loads(s)["value"]["n"])
    return out


@obligation(quick=200, thorough=400, partitions_quick=[f"left == {k}" for k in (1, 2)],
            what="whole run, real BasicRuntime: run 1 ends on the first result and leaves `left` events queued; its context is continued — under "
                 "the SAME run id (symbolic) or a fresh one. A runtime may refuse the reused id; a run it does start reports, while its step "
                 "is blocked, exactly that step as running, that event in progress and the rest queued, and its state is still computable "
                 "after it finished",
            bounds={"left-over events": "1..2", "run id": "reused / fresh", "verbose": "False / True (VerboseDecorator in the adapter chain)"})
def ob_continued_run_reports_its_own_state(left: int, reuse: bool, verbose: bool = False) -> bool:
    """
    pre: 1 <= left <= 2
    post: _
    """
    import asyncio

    from vlib.miniloop import MiniLoop

    left, reuse, verbose = conc(left, 1, 2), concb(reuse), concb(verbose)    # verbose=True wraps the runtime in the printing decorator
    out: dict = {"problems": []}

    async def main():
        _CGATES.clear()
        _CENTERED.clear()
        wf = _FirstWins(timeout=None, verbose=verbose)
        _CGATES[1] = asyncio.Event()
        batch = [1, 2, 3][: left + 1]
        h1 = wf.run(run_id="job-1", batch=batch)
        for _ in range(200):
            await asyncio.sleep(0)
            if _nums(h1.ctx.to_dict()["workers"]["work"]["queue"]) == batch[1:]:
                break
        _CGATES[1].set()
        r1 = await h1
        if r1 != 1:
            out["problems"].append(f"run 1 returned {r1!r}")
            return
        _CGATES[2] = asyncio.Event()
        _CENTERED[2] = asyncio.Event()
        try:
            h2 = wf.run(ctx=h1.ctx, run_id=("job-1" if reuse else "job-2"), batch=[])
        except RuntimeError:
            out["refused"] = True      # a runtime may refuse a known run id
            return
        await asyncio.wait_for(_CENTERED[2].wait(), timeout=50)
        for _ in range(20):
            await asyncio.sleep(0)
        try:
            running = await h2.ctx.running_steps()
            snap = h2.ctx.to_dict()
            if running != ["work"]:
                out["problems"].append(f"running_steps() == {running} while `work` is executing CWork(2)")
            if _nums(snap["workers"]["work"]["in_progress"]) != [2] or _nums(snap["workers"]["work"]["queue"]) != batch[2:]:
                out["problems"].append("to_dict() does not show CWork(2) in progress and the rest queued")
        except Exception as e:  # noqa: BLE001
            out["problems"].append(f"state of the live run could not be rebuilt: {type(e).__name__}: {e}")
        _CGATES[2].set()
        r2 = await h2
        if r2 != 2:
            out["problems"].append(f"run 2 returned {r2!r}")
        try:
            snap = h2.ctx.to_dict()
            if _nums(snap["workers"]["work"]["in_progress"]) != [] or _nums(snap["workers"]["work"]["queue"]) != batch[2:]:
                out["problems"].append("after run 2 to_dict() is not: nothing in progress, the rest queued")
        except Exception as e:  # noqa: BLE001
            out["problems"].append(f"after run 2 the state could not be rebuilt: {type(e).__name__}: {e}")

    MiniLoop().run_until_complete(main())
    if out["problems"] and __import__("os").environ.get("VERIF_DEBUG"):
        __import__("sys").stderr.write(f"[continued left={left} reuse={reuse}] {out['problems']}\n")
    return not out["problems"]


# ------------------------------------------------------------------------------------------------ a log that spans a resume
# The tick log of a run that was resumed (server restart, idle reload, continued context) continues in the SAME log.  The live resumed life
# starts from rewind_in_progress(state rebuilt from the earlier ticks); a later rebuild folds ALL ticks over the original init state and
# rewinds only once, at the very beginning.  The two must agree on what is still pending after the resumed life's first step result.
from vlib.world import broker as _broker, in_progress as _ipw, step_config as _scfg, worker_state as _wst  # noqa: E402
from workflows.runtime.types.internal_state import EventAttempt  # noqa: E402

_RA = [EvA(), EvA(), EvA()]      # distinct event objects, one per busy slot
_RQ = [EvA(), EvA()]             # queued behind them


def _pending(state) -> list:
    ws = state.workers["a"]
    return sorted([id(x.event) for x in ws.in_progress] + [id(x.event) for x in ws.queue])


def resumed_with_work_in_flight(nw: int, b0: bool, b1: bool, b2: bool) -> bool:
    """class of KF-C11-2: at the junction an invocation is in flight and rewinding changes its slot or the slot order (anything but 'only slot
    0 busy'): rewind_in_progress re-admits interrupted invocations in REVERSED order with ids from 0"""
    return b1 or b2


@obligation(quick=120, thorough=300, partitions_quick=[f"nw == {n}" for n in (1, 2, 3)],
            what="a run is resumed with invocations in flight (any busy slots, any queue) and its resumed life reports its first step result into "
                 "the same tick log: folding that tick over the un-rewound junction state (what a later rebuild of the whole log does) leaves "
                 "the same events pending as the live resumed life — no error, no invocation completed in place of another",
            bounds={"num_workers": "1..3", "busy slots at the junction": "any subset", "queue": "0..2", "reporting worker": "any of the resumed life's"})
def ob_replay_across_a_resume(nw: int, b0: bool, b1: bool, b2: bool, q: int, pick: int) -> bool:
    """
    pre: 1 <= nw <= 3 and 0 <= q <= 2 and 0 <= pick <= 2
    pre: (b0 or b1 or b2) and (nw >= 2 or not b1) and (nw >= 3 or not b2)
    post: _
    """
    nw, q, pick = conc(nw, 1, 3), conc(q, 0, 2), conc(pick, 0, 2)
    b0, b1, b2 = concb(b0), concb(b1), concb(b2)
    cfg = _scfg([EvA], nw, None)
    ips = [_ipw("a", _RA[i], i) for i, b in enumerate((b0, b1, b2)) if b]
    queue = [EventAttempt(event=_RQ[i]) for i in range(q)] if len(ips) >= nw else []
    st = _broker({"a": _wst(cfg, queue, ips, {}, []), "b": _wst(_scfg([EvB, StartEvent], 1, None), [], [], {}, [])})
    live0, _ = rewind_in_progress(st, 1)
    running = live0.workers["a"].in_progress
    ip = running[pick % len(running)]
    tick = TickStepResult.model_construct(step_name="a", worker_id=ip.worker_id, event=ip.event, result=[StepWorkerResult(result=None)])
    live1, _ = _reduce_tick(tick, live0, 2, "r")
    try:
        rep1, _ = _reduce_tick(tick, st, 2, "r")
    except Exception:  # noqa: BLE001 - "Worker N not found in in_progress": the log cannot be replayed at all
        return False
    return _pending(rep1) == _pending(live1)
