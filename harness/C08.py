"""C08 — exhausted failures route to the owning @catch_error handler within its per-lineage budget, never to a handler
for a handler step; otherwise the run fails with the ORIGINAL exception and a WorkflowFailedEvent; the routing is the
same whether or not graph validation is disabled.

Shape:
* ``ob_tables``: the REAL ``_collect_catch_error_handlers`` on symbolic StepConfig sets (<= 2 scoped handlers + optional
  wildcard, symbolic ``for_steps`` membership, also ill-formed sets) against an independent oracle of "owner".
* ``ob_route``: one real ``_reduce_tick`` step (StepWorkerFailed, policy absent or exhausted) from a state whose tables
  come from the real table builder, with symbolic recovery_counts on the lineage: exactly one of {queue StepFailedEvent
  to the owner with the count incremented and <= max} / {publish WorkflowFailedEvent + CommandFailWorkflow with the
  original exception object}.
* ``ob_config_independence``: the REAL ``Workflow.run()`` (up to the Runtime boundary, public extension point) on real
  Workflow classes generated from symbolic layout bits, ``disable_validation`` symbolic: the tables inside the
  BrokerState handed to the runtime equal the oracle's.
* ``ob_hop_*``: recovery_counts survive every hop of a lineage (CommandQueueEvent -> TickAddEvent in
  ``_ControlLoopRunner.process_command``; TickAddEvent -> EventAttempt/InProgressState in the reducer, also through the
  queue and ``rewind_in_progress``; InProgressState -> RetryAttempt in ``run_worker``; step outputs and retries;
  ``ctx.send_event`` tagging).
* ``ob_lineage_run``: bounded composition of all of it: a lineage that keeps failing enters its handler exactly
  ``max_recoveries`` times, then the run fails with the last original exception.
"""
from __future__ import annotations

import asyncio

import vlib.boot  # noqa: F401
from vlib.boot import B, drive
from vlib.ob import obligation
from vlib.h_handlers import (
    CaptureRuntime, conc, concb, find_ip, init_state_via_run, mk_add_event, mk_step_result, native, new_ictx,
)
from vlib.miniloop import MiniLoop
from vlib.world import EVA, EVB, EvA, EvB, StubPolicy, broker, in_progress, step_config, worker_state

from workflows import Workflow, catch_error, step
from workflows.errors import WorkflowValidationError
from workflows.events import StartEvent, StepFailedEvent, StopEvent, WorkflowFailedEvent
from workflows.representation.validate import _collect_catch_error_handlers
from workflows.runtime.control_loop import _ControlLoopRunner, _reduce_tick, rewind_in_progress
from workflows.runtime.types.commands import (
    CommandFailWorkflow, CommandPublishEvent, CommandQueueEvent, CommandRunWorker,
)
from workflows.runtime.types.internal_state import BrokerState, EventAttempt
from workflows.runtime.types.results import (
    RetryAttempt, Returns, StepWorkerContext, StepWorkerFailed, StepWorkerResult, StepWorkerState,
    StepWorkerStateContextVar,
)
from workflows.runtime.types.ticks import TickAddEvent

ENCODED = [
    "workflows.representation.validate:_collect_catch_error_handlers",
    "workflows.representation.validate:validate_catch_error_handlers",
    "workflows.runtime.control_loop:_process_step_result_tick",
    "workflows.runtime.control_loop:_process_add_event_tick",
    "workflows.runtime.control_loop:_add_or_enqueue_event",
    "workflows.runtime.control_loop:rewind_in_progress",
    "workflows.runtime.control_loop:_ControlLoopRunner.process_command",
    "workflows.runtime.control_loop:_ControlLoopRunner.run_worker",
    "workflows.context.internal_context:InternalContext.send_event",
    "workflows.workflow:Workflow.run",
    "workflows.workflow:Workflow._validate",
    "workflows.representation.validate:_validate_workflow",
    "workflows.runtime.types.internal_state:BrokerState.from_workflow",
    "workflows.runtime.types.internal_state:BrokerState.from_serialized",
    "workflows.decorators:catch_error",
]
ASSUMES = [
    "layouts: regular steps s1, s2; scoped handlers h1, h2 (symbolic for_steps subsets of {s1, s2}); wildcard handler hw; "
    "max_recoveries 1..2",
    "user retry policy = absent, or StubPolicy(0) (gives up) — 'exhausted' is whatever the policy says (C04/C05 cover the "
    "policies themselves)",
    "ob_config_independence observes the BrokerState at the Runtime.run_workflow boundary (CaptureRuntime, a public "
    "extension point) — exactly what BasicRuntime / the server runtimes receive from Workflow.run()",
    "hop obligations: stub adapter with get_now/send_event only; step function stub capturing its RetryAttempt",
    "Workflow._get_steps (inspect.getmembers reflection) runs with the tracer off in generated workflow classes (speed "
    "only, same code)",
]
OUTSIDE = [
    "more than two regular steps / two scoped handlers; max_recoveries > 2; recovery counts > 3",
    "in_progress events lose their recovery_counts across serialization (BrokerState.to_serialized keeps them only for "
    "queued attempts) — that is C12's subject",
    "what a handler does with the StepFailedEvent (user code)",
]

EXC = ValueError("original failure")
SFE = native(StepFailedEvent, step_name="s1", input_event=EVA, exception=ValueError("earlier"), attempts=1,
             elapsed_seconds=0.0, failed_at=__import__("datetime").datetime(2026, 1, 1, tzinfo=__import__("datetime").timezone.utc))
STEPS = ["s1", "s2", "h1", "h2", "hw"]


# ---------------------------------------------------------------------------------------------------------------
# layout -> StepConfig set, and the independent oracle


def _cfgs(has_h1, h1_s1, h1_s2, has_h2, h2_s1, h2_s2, has_hw, m1, m2, mw, policy=None, h1_extra=None):
    cfgs = {"s1": step_config([StartEvent, EvA], 1, policy), "s2": step_config([EvB], 1, policy)}
    if has_h1:
        fs = (["s1"] if h1_s1 else []) + (["s2"] if h1_s2 else []) + (list(h1_extra) if h1_extra else [])
        cfgs["h1"] = step_config([StepFailedEvent], 1, None, role="catch_error", for_steps=fs, max_recoveries=m1)
    if has_h2:
        fs = (["s1"] if h2_s1 else []) + (["s2"] if h2_s2 else [])
        cfgs["h2"] = step_config([StepFailedEvent], 1, None, role="catch_error", for_steps=fs, max_recoveries=m2)
    if has_hw:
        cfgs["hw"] = step_config([StepFailedEvent], 1, None, role="catch_error", for_steps=None, max_recoveries=mw)
    return cfgs


def _layout_ok(has_h1, h1_s1, h1_s2, has_h2, h2_s1, h2_s2) -> bool:
    """membership bits only for existing handlers; no step claimed by two scoped handlers"""
    if not has_h1 and (h1_s1 or h1_s2):
        return False
    if not has_h2 and (h2_s1 or h2_s2):
        return False
    return not (h1_s1 and h2_s1) and not (h1_s2 and h2_s2)


def _owner(step_name, has_h1, h1_s1, h1_s2, has_h2, h2_s1, h2_s2, has_hw):
    """ORACLE (written from the statement): the scoped handler that lists the step, else the wildcard, never for a
    handler step."""
    if step_name not in ("s1", "s2"):
        return None
    first = step_name == "s1"
    if has_h1 and (h1_s1 if first else h1_s2):
        return "h1"
    if has_h2 and (h2_s1 if first else h2_s2):
        return "h2"
    return "hw" if has_hw else None


def _max_of(h, m1, m2, mw):
    return m1 if h == "h1" else (m2 if h == "h2" else mw)


def _tables_match(handlers, hfs, has_h1, h1_s1, h1_s2, has_h2, h2_s1, h2_s2, has_hw, m1, m2, mw) -> bool:
    present = [n for n, p in (("h1", has_h1), ("h2", has_h2), ("hw", has_hw)) if p]
    if sorted(handlers.keys()) != sorted(present):
        return False
    for n in present:
        h = handlers[n]
        if h.step_name != n or h.max_recoveries != _max_of(n, m1, m2, mw):
            return False
    for s in STEPS:
        want = _owner(s, has_h1, h1_s1, h1_s2, has_h2, h2_s1, h2_s2, has_hw)
        if hfs.get(s) != want:
            return False
    for k in hfs:
        if k not in ("s1", "s2"):
            return False
    return True


# --------------------------------------------------------------------------------------------------------------- Ob2


@obligation(quick=90, thorough=300, partitions_quick=["has_h1", "not has_h1"], partitions_thorough=["has_h1 and has_h2", "has_h1 and not has_h2", "not has_h1"],
            what="_collect_catch_error_handlers: handler_for_step(s) = the scoped handler listing s, else the wildcard, never "
                 "an entry for a handler step; a step claimed by two handlers, a handler covering a handler, or "
                 "max_recoveries < 1 is rejected",
            bounds={"scoped handlers": "0..2", "wildcard": "0..1", "for_steps": "any subsets of {s1,s2} (+ a handler name)",
                    "max_recoveries": "0..2"})
def ob_tables(has_h1: bool, h1_s1: bool, h1_s2: bool, has_h2: bool, h2_s1: bool, h2_s2: bool, has_hw: bool,
              h1_lists_h2: bool, m1: int, mw: int) -> bool:
    """
    pre: 0 <= m1 <= 2 and 0 <= mw <= 2
    pre: has_h1 or not (h1_s1 or h1_s2 or h1_lists_h2)
    pre: has_h2 or not (h2_s1 or h2_s2)
    post: _
    """
    has_h1, h1_s1, h1_s2, has_h2, h2_s1, h2_s2, has_hw, h1_lists_h2 = (
        concb(has_h1), concb(h1_s1), concb(h1_s2), concb(has_h2), concb(h2_s1), concb(h2_s2), concb(has_hw), concb(h1_lists_h2))
    m1, mw = conc(m1, 0, 2), conc(mw, 0, 2)
    cfgs = _cfgs(has_h1, h1_s1, h1_s2, has_h2, h2_s1, h2_s2, has_hw, m1, 1, mw, h1_extra=(["h2"] if h1_lists_h2 else None))
    ill = ((h1_s1 and h2_s1) or (h1_s2 and h2_s2) or h1_lists_h2 or (has_h1 and m1 < 1) or (has_hw and mw < 1))
    try:
        handlers, hfs = _collect_catch_error_handlers(cfgs)
    except WorkflowValidationError:
        return bool(ill)
    if ill:
        return False
    return _tables_match(handlers, hfs, has_h1, h1_s1, h1_s2, has_h2, h2_s1, h2_s2, has_hw, m1, 1, mw)


# --------------------------------------------------------------------------------------------------------------- Ob1

RC_MAX = B(2, 3)
FULL = B(False, True)


def _is_sfe_to(c, target) -> bool:
    return isinstance(c, CommandQueueEvent) and isinstance(c.event, StepFailedEvent) and c.step_name == target


@obligation(quick=150, thorough=600,
            partitions_quick=[f"fs == {f} and has_hw == {w}" for f in range(2) for w in (True, False)] + ["fs >= 2"],
            partitions_thorough=[f"fs == {f} and has_hw == {w} and has_h1 == {a}" for f in range(2) for w in (True, False) for a in (True, False)] + ["fs == 2", "fs == 3"],
            what="StepWorkerFailed with no (further) retry: owner present and recovery_counts[owner]+1 <= max  =>  exactly one "
                 "CommandQueueEvent(StepFailedEvent -> owner) carrying the incremented count, run stays alive;  otherwise "
                 "(no owner / budget spent / failing step is a handler)  =>  WorkflowFailedEvent + CommandFailWorkflow with "
                 "the original exception object, nothing queued",
            bounds={"layout": "<=2 scoped + wildcard, symbolic membership", "max_recoveries": "1..2", "recovery_counts[owner]": "0..RC_MAX",
                    "failing step": "s1/s2/h1/hw", "policy": "absent / gives up", "attempts": "0..1"})
def ob_route(has_h1: bool, h1_s1: bool, h1_s2: bool, has_h2: bool, h2_s1: bool, h2_s2: bool, has_hw: bool, m: int, m_other: int,
             fs: int, rc_owner: int, rc_other: int, pol: bool, att: int) -> bool:
    """
    pre: _layout_ok(has_h1, h1_s1, h1_s2, has_h2, h2_s1, h2_s2)
    pre: 1 <= m <= 2 and 1 <= m_other <= 2 and 0 <= fs <= 3 and 0 <= rc_owner <= RC_MAX and 0 <= rc_other <= 1 and 0 <= att <= 1
    pre: (fs != 2 or has_h1) and (fs != 3 or has_hw)
    pre: FULL or (m_other == 1 and att == 0)
    post: _
    """
    has_h1, h1_s1, h1_s2, has_h2, h2_s1, h2_s2, has_hw, pol = (
        concb(has_h1), concb(h1_s1), concb(h1_s2), concb(has_h2), concb(h2_s1), concb(h2_s2), concb(has_hw), concb(pol))
    m, m_other, fs, rc_owner, rc_other, att = conc(m, 1, 2), conc(m_other, 1, 2), conc(fs, 0, 3), conc(rc_owner, 0, 3), conc(rc_other, 0, 1), conc(att, 0, 1)
    fstep = ("s1", "s2", "h1", "hw")[fs]
    owner = _owner(fstep, has_h1, h1_s1, h1_s2, has_h2, h2_s1, h2_s2, has_hw)
    # the owner's budget is `m`; every other handler's is `m_other`
    m1 = m if owner == "h1" else m_other
    m2 = m if owner == "h2" else m_other
    mw = m if owner == "hw" else m_other
    policy = StubPolicy(0) if pol else None
    cfgs = _cfgs(has_h1, h1_s1, h1_s2, has_h2, h2_s1, h2_s2, has_hw, m1, m2, mw, policy=policy)
    handlers, hfs = _collect_catch_error_handlers(cfgs)  # REAL table construction
    rc = {}
    if owner is not None and rc_owner > 0:
        rc[owner] = rc_owner
    other = next((h for h in ("h1", "h2", "hw") if h in cfgs and h != owner), None)
    if other is not None and rc_other > 0:
        rc[other] = rc_other
    # a lineage only carries counts within budget (R6); counts above the budget are unreachable
    if owner is not None and rc_owner > m:
        return True
    ev = SFE if fstep in ("h1", "hw") else EVA
    workers = {n: worker_state(c, [], [], {}, []) for n, c in cfgs.items()}
    workers[fstep].in_progress = [in_progress(fstep, ev, 0, attempts=att, first_attempt_at=0, recovery_counts=rc)]
    st = broker(workers, handlers=handlers, handler_for_step=hfs)
    res = [native(StepWorkerFailed, exception=EXC, failed_at=1.0)]
    st2, cmds = _reduce_tick(mk_step_result(fstep, 0, ev, res), st, 1, "r")
    sfe_cmds = [c for c in cmds if isinstance(c, CommandQueueEvent) and isinstance(c.event, StepFailedEvent)]
    fails = [c for c in cmds if isinstance(c, CommandFailWorkflow)]
    wfes = [c for c in cmds if isinstance(c, CommandPublishEvent) and isinstance(c.event, WorkflowFailedEvent)]
    if policy is not None and fstep in ("s1", "s2") and len(policy.calls) != 1:
        return False  # the policy is consulted exactly once per failure
    route = owner is not None and rc_owner + 1 <= m
    if route:
        if len(sfe_cmds) != 1 or fails or wfes or not st2.is_running:
            return False
        c = sfe_cmds[0]
        want_rc = dict(rc)
        want_rc[owner] = rc_owner + 1
        e = c.event
        return (c.step_name == owner and c.recovery_counts == want_rc and c.recovery_counts[owner] <= m
                and (c.delay is None or c.delay == 0) and e.step_name == fstep and e.input_event is ev
                and e.exception is EXC and e.attempts == att + 1)
    if sfe_cmds or len(fails) != 1 or len(wfes) != 1 or st2.is_running:
        return False
    return (fails[0].exception is EXC and fails[0].step_name == fstep and wfes[0].event.exception is EXC
            and wfes[0].event.step_name == fstep and wfes[0].event.attempts == att + 1)


# --------------------------------------------------------------------------------------------------------------- Ob3


def _build_wf_class(has_h1, h1_s1, h1_s2, has_h2, h2_s1, h2_s2, has_hw, m1, m2, mw):
    f1 = (["s1"] if h1_s1 else []) + (["s2"] if h1_s2 else [])
    f2 = (["s1"] if h2_s1 else []) + (["s2"] if h2_s2 else [])

    class LWF(Workflow):
        @step
        async def s1(self, ev: StartEvent) -> EvB:
            return EvB()

        @step
        async def s2(self, ev: EvB) -> StopEvent:
            return StopEvent()

        if has_h1:
            @catch_error(for_steps=f1, max_recoveries=m1)
            async def h1(self, ev: StepFailedEvent) -> StopEvent:
                return StopEvent()

        if has_h2:
            @catch_error(for_steps=f2, max_recoveries=m2)
            async def h2(self, ev: StepFailedEvent) -> StopEvent:
                return StopEvent()

        if has_hw:
            @catch_error(max_recoveries=mw)
            async def hw(self, ev: StepFailedEvent) -> StopEvent:
                return StopEvent()

        def _get_steps(self):
            # speed only: the REAL reflection (inspect.getmembers over the instance) with the tracer off
            return native(Workflow._get_steps, self)

    return LWF


@obligation(quick=200, thorough=400, partitions_quick=["dv", "not dv and has_hw", "not dv and not has_hw"],
            partitions_thorough=["dv", "not dv and has_hw", "not dv and not has_hw"],
            what="real Workflow(disable_validation=dv).run() hands the runtime a BrokerState whose catch_error_handlers / "
                 "handler_for_step equal the oracle's tables — for dv False AND True (configuration independence)",
            bounds={"layout": "<=2 scoped + wildcard, symbolic membership", "max_recoveries": "1..2", "disable_validation": "both"})
def ob_config_independence(has_h1: bool, h1_s1: bool, h1_s2: bool, has_h2: bool, h2_s1: bool, h2_s2: bool, has_hw: bool, m: int, dv: bool,
                           second_run: bool) -> bool:
    """
    pre: _layout_ok(has_h1, h1_s1, h1_s2, has_h2, h2_s1, h2_s2) and 1 <= m <= 2
    pre: FULL or not second_run
    post: _
    """
    has_h1, h1_s1, h1_s2, has_h2, h2_s1, h2_s2, has_hw, dv, second_run = (
        concb(has_h1), concb(h1_s1), concb(h1_s2), concb(has_h2), concb(h2_s1), concb(h2_s2), concb(has_hw), concb(dv), concb(second_run))
    m = conc(m, 1, 2)
    cls = native(_build_wf_class, has_h1, h1_s1, h1_s2, has_h2, h2_s1, h2_s2, has_hw, m, 1, m)
    wf = cls(disable_validation=dv, runtime=CaptureRuntime(), timeout=None)
    init = init_state_via_run(wf)
    if second_run:  # validation result is cached after the first run: the tables must still be there
        init = init_state_via_run(wf)
    return _tables_match(init.config.catch_error_handlers, init.config.handler_for_step,
                         has_h1, h1_s1, h1_s2, has_h2, h2_s1, h2_s2, has_hw, m, 1, m)


def _add_late_step(cls):
    """what `@step(workflow=Flow)` on a free function does after instances of Flow already exist"""
    @step(workflow=cls)
    async def late(ev: EvB) -> StopEvent:
        return StopEvent()

    return cls


@obligation(quick=120, thorough=300, partitions_quick=["dv and used_before", "dv and not used_before", "not dv"],
            what="a step registered on the class AFTER an instance exists (and, symbolically, after that instance was already run once): the "
                 "instance's next run gets catch_error tables that cover the new step exactly like a fresh, validated instance of the class "
                 "does — for disable_validation False AND True",
            bounds={"layout": "2 steps + late step, optional scoped handler on s1, optional wildcard", "max_recoveries": "1..2"})
def ob_late_step(has_h1: bool, has_hw: bool, m: int, dv: bool, used_before: bool) -> bool:
    """
    pre: 1 <= m <= 2
    post: _
    """
    has_h1, has_hw, dv, used_before = concb(has_h1), concb(has_hw), concb(dv), concb(used_before)
    m = conc(m, 1, 2)
    cls = native(_build_wf_class, has_h1, True, False, False, False, False, has_hw, m, 1, m)
    wf = cls(disable_validation=dv, runtime=CaptureRuntime(), timeout=None)
    if used_before:
        init_state_via_run(wf)
    native(_add_late_step, cls)
    got = init_state_via_run(wf)
    ref = init_state_via_run(cls(disable_validation=False, runtime=CaptureRuntime(), timeout=None))
    a = (sorted(got.config.catch_error_handlers), dict(got.config.handler_for_step))
    b = (sorted(ref.config.catch_error_handlers), dict(ref.config.handler_for_step))
    if a != b:
        return False
    # and the new step is really covered when a wildcard handler exists
    return (not has_hw) or got.config.handler_for_step.get("late") == "hw"


# --------------------------------------------------------------------------------------------------------------- Ob4


class _StubAdapter:
    run_id = "r"

    def __init__(self) -> None:
        self.sent = []

    async def get_now(self) -> float:
        return 10.0

    async def send_event(self, tick) -> None:
        self.sent.append(tick)


def _rc(p1: bool, n1: int, p2: bool, n2: int):
    rc = {}
    if p1:
        rc["h1"] = n1
    if p2:
        rc["hw"] = n2
    return rc


def _two_step_state(nw=1, policy=None, rc_cfg=True):
    cfgs = _cfgs(True, True, False, False, False, False, True, 2, 1, 2, policy=policy)
    cfgs["s1"].num_workers = nw
    handlers, hfs = _collect_catch_error_handlers(cfgs)
    workers = {n: worker_state(c, [], [], {}, []) for n, c in cfgs.items()}
    return broker(workers, handlers=handlers, handler_for_step=hfs)


@obligation(quick=90, thorough=200,
            what="hop 1 (_ControlLoopRunner.process_command): CommandQueueEvent -> TickAddEvent (buffered, or scheduled when "
                 "delayed) carries equal recovery_counts in a fresh dict, plus step_name/attempts",
            bounds={"recovery_counts": "2 keys, presence symbolic, values 0..2 / 0..1", "delay": "None/0/2", "attempts": "0..1"})
def ob_hop_command_to_tick(p1: bool, n1: int, p2: bool, n2: int, dk: int, targeted: bool, att: int) -> bool:
    """
    pre: 0 <= n1 <= 2 and 0 <= n2 <= 1 and 0 <= dk <= 2 and 0 <= att <= 1
    post: _
    """
    # pydantic validates TickAddEvent (realising every symbolic field): concretise by forks up front
    rc = _rc(concb(p1), conc(n1, 0, 2), concb(p2), conc(n2, 0, 1))
    dk, targeted, att = conc(dk, 0, 2), concb(targeted), conc(att, 0, 1)
    st = native(_two_step_state)
    runner = _ControlLoopRunner(None, _StubAdapter(), None, {}, st)  # type: ignore[arg-type]
    delay = None if dk == 0 else (0 if dk == 1 else 2)
    cmd = CommandQueueEvent(event=EVA, step_name=("s1" if targeted else None), delay=delay, attempts=att, recovery_counts=rc)
    drive(runner.process_command(cmd))
    if dk == 2:
        if runner.tick_buffer or len(runner.scheduled_wakeups) != 1:
            return False
        when, _, tick = runner.scheduled_wakeups[0]
        if when != 12.0:
            return False
    else:
        if runner.scheduled_wakeups or len(runner.tick_buffer) != 1:
            return False
        tick = runner.tick_buffer[0]
    return (isinstance(tick, TickAddEvent) and tick.event is EVA and tick.recovery_counts == rc and tick.recovery_counts is not rc
            and tick.step_name == ("s1" if targeted else None) and tick.attempts == att)


@obligation(quick=120, thorough=300, partitions_quick=["busy", "not busy"], partitions_thorough=["busy", "not busy"],
            what="hop 2 (reducer): TickAddEvent.recovery_counts -> InProgressState (free slot) or queued EventAttempt -> "
                 "InProgressState when the slot frees; rewind_in_progress keeps them too",
            bounds={"recovery_counts": "2 keys, presence symbolic, values 0..3", "slot": "free / busy then freed", "rewind": "yes/no"})
def ob_hop_tick_to_inprogress(p1: bool, n1: int, p2: bool, n2: int, busy: bool, rewind: bool) -> bool:
    """
    pre: 0 <= n1 <= 3 and 0 <= n2 <= 3
    post: _
    """
    rc = _rc(p1, n1, p2, n2)
    st = native(_two_step_state)
    other = EvA()
    if busy:
        st.workers["s1"].in_progress = [in_progress("s1", other, 0)]
    tick = TickAddEvent.model_construct(event=EVA, step_name=None, attempts=None, first_attempt_at=None, last_exception=None,
                                        last_failed_at=None, recovery_counts=rc)
    st, _ = _reduce_tick(tick, st, 1, "r")
    if busy:
        q = st.workers["s1"].queue
        if len(q) != 1 or q[0].event is not EVA or q[0].recovery_counts != rc:
            return False
        st, _ = _reduce_tick(mk_step_result("s1", 0, other, [native(StepWorkerResult, result=None)]), st, 2, "r")
    if rewind:
        st, _ = rewind_in_progress(st, 3)
    ip = find_ip(st, "s1", 0)
    return ip is not None and ip.event is EVA and ip.recovery_counts == rc and ip.recovery_counts is not rc


@obligation(quick=90, thorough=200,
            what="hop 3 (_ControlLoopRunner.run_worker): the RetryAttempt handed to the step function carries the "
                 "InProgressState's recovery_counts (fresh dict) and attempts",
            bounds={"recovery_counts": "2 keys, presence symbolic, values 0..3", "attempts": "0..2"})
def ob_hop_inprogress_to_retry(p1: bool, n1: int, p2: bool, n2: int, att: int) -> bool:
    """
    pre: 0 <= n1 <= 3 and 0 <= n2 <= 3 and 0 <= att <= 2
    post: _
    """
    rc = _rc(p1, n1, p2, n2)
    st = native(_two_step_state)
    st.workers["s1"].in_progress = [in_progress("s1", EVA, 0, attempts=att, recovery_counts=rc)]
    seen = []

    async def step_fn(state, step_name, event, workflow, retry=RetryAttempt()):
        seen.append((state, step_name, event, retry))
        return [StepWorkerResult.model_construct(type="result", result=None)]

    runner = _ControlLoopRunner(None, _StubAdapter(), None, {"s1": step_fn}, st)  # type: ignore[arg-type]
    runner.run_worker(CommandRunWorker(step_name="s1", event=EVA, id=0))
    if len(runner._pending_workers) != 1:
        return False
    tick = drive(runner._pending_workers[0].coro)
    if len(seen) != 1:
        return False
    state, step_name, event, retry = seen[0]
    return (retry.recovery_counts == rc and retry.recovery_counts is not st.workers["s1"].in_progress[0].recovery_counts
            and retry.retry_number == att and event is EVA and step_name == "s1" and tick.worker_id == 0)


@obligation(quick=120, thorough=300, partitions_quick=["kind == 0", "kind == 1"], partitions_thorough=["kind == 0", "kind == 1"],
            what="hop 4 (reducer, step outputs): an event returned by a step, and a retry of a failed step, are queued with the "
                 "invocation's recovery_counts",
            bounds={"recovery_counts": "2 keys, presence symbolic, values 0..3", "kind": "returned event / retry"})
def ob_hop_result_to_command(p1: bool, n1: int, p2: bool, n2: int, kind: int) -> bool:
    """
    pre: 0 <= n1 <= 3 and 0 <= n2 <= 3 and 0 <= kind <= 1
    post: _
    """
    rc = _rc(p1, n1, p2, n2)
    kind = conc(kind, 0, 1)
    st = native(_two_step_state, 1, StubPolicy(1) if kind == 1 else None)
    st.workers["s1"].in_progress = [in_progress("s1", EVA, 0, recovery_counts=rc)]
    if kind == 0:
        res = [native(StepWorkerResult, result=EVB)]
    else:
        res = [native(StepWorkerFailed, exception=EXC, failed_at=1.0)]
    st2, cmds = _reduce_tick(mk_step_result("s1", 0, EVA, res), st, 1, "r")
    qs = [c for c in cmds if isinstance(c, CommandQueueEvent)]
    if len(qs) != 1:
        return False
    c = qs[0]
    if c.recovery_counts != rc or c.recovery_counts is rc:
        return False
    if kind == 0:
        return c.event is EVB and c.step_name is None
    return c.event is EVA and c.step_name == "s1" and c.attempts == 1 and c.last_exception is EXC


@obligation(quick=120, thorough=300,
            what="hop 5 (InternalContext.send_event): an event sent with ctx.send_event from inside a step is tagged with the "
                 "running invocation's recovery_counts (RetryAttempt), outside a step with {}",
            bounds={"recovery_counts": "2 keys, presence symbolic, values 0..3", "inside a step": "yes/no"})
def ob_hop_send_event(p1: bool, n1: int, p2: bool, n2: int, inside: bool) -> bool:
    """
    pre: 0 <= n1 <= 3 and 0 <= n2 <= 3
    post: _
    """
    rc = _rc(p1, n1, p2, n2)
    inside = concb(inside)
    ad = _StubAdapter()
    ic = new_ictx()
    ic._internal_adapter = ad  # type: ignore[attr-defined]

    async def main():
        tok = None
        if inside:
            tok = StepWorkerStateContextVar.set(StepWorkerContext(
                state=StepWorkerState(step_name="s1", collected_events={}, collected_waiters=[]),
                returns=Returns(return_values=[]), retry=RetryAttempt(recovery_counts=rc)))
        try:
            ic.send_event(EVB)
        finally:
            if tok is not None:
                StepWorkerStateContextVar.reset(tok)
        await asyncio.sleep(0)
        await asyncio.sleep(0)
        return True

    MiniLoop().run_until_complete(main())
    if len(ad.sent) != 1:
        return False
    t = ad.sent[0]
    want = rc if inside else {}
    return isinstance(t, TickAddEvent) and t.event is EVB and t.step_name is None and t.recovery_counts == want and (t.recovery_counts is not rc)


# --------------------------------------------------------------------------------------------------------------- composed

N_HOPS = B(4, 6)


@obligation(quick=200, thorough=600, partitions_quick=[f"m == {m}" for m in (1, 2)], partitions_thorough=[f"m == {m} and scoped == {s}" for m in (1, 2) for s in (True, False)],
            what="a lineage that keeps failing (s1 fails -> handler -> handler re-emits into s1 by return or by ctx.send_event "
                 "-> s1 fails ...) enters its handler exactly max_recoveries times, then the run fails with the last original "
                 "exception; real reducer + real process_command + real send_event in a loop",
            bounds={"max_recoveries": "1..2", "handler": "scoped / wildcard", "re-emission": "return / ctx.send_event per hop (symbolic)",
                    "s1 retry policy": "absent / one retry then gives up"})
def ob_lineage_run(m: int, scoped: bool, v0: bool, v1: bool, v2: bool, retry_once: bool) -> bool:
    """
    pre: 1 <= m <= 2
    post: _
    """
    m, scoped, retry_once = conc(m, 1, 2), concb(scoped), concb(retry_once)
    vias = [concb(v0), concb(v1), concb(v2)]

    class _Pol:
        def next(self, elapsed_time, attempts, error):
            return 0 if (retry_once and attempts < 2) else None

    hname = "h1" if scoped else "hw"
    cfgs = _cfgs(scoped, scoped, False, False, False, False, not scoped, m, 1, m, policy=_Pol())
    handlers, hfs = _collect_catch_error_handlers(cfgs)
    workers = {n: worker_state(c, [], [], {}, []) for n, c in cfgs.items()}
    st = broker(workers, handlers=handlers, handler_for_step=hfs)
    ad = _StubAdapter()
    runner = _ControlLoopRunner(None, ad, None, {}, st)  # type: ignore[arg-type]
    excs = []
    entries = 0
    failed_with = None
    runner.tick_buffer.append(mk_add_event(EVA))
    guard = 0
    while runner.tick_buffer and failed_with is None:
        guard += 1
        if guard > 60:
            return False    # the lineage goes on for ever (m <= 2 recoveries and <= 2 attempts each end well within 60 ticks): the budget does not bound it
        tick = runner.tick_buffer.pop(0)
        runner.state, cmds = _reduce_tick(tick, runner.state, 1, "r")
        for c in cmds:
            if isinstance(c, CommandFailWorkflow):
                failed_with = c.exception
                break
            if isinstance(c, CommandQueueEvent):
                drive(runner.process_command(c))  # REAL hop command -> tick
            elif isinstance(c, CommandRunWorker):
                ip = find_ip(runner.state, c.step_name, c.id)
                retry = RetryAttempt(retry_number=ip.attempts, recovery_counts=dict(ip.recovery_counts))  # hop 3 (ob_hop_inprogress_to_retry)
                if c.step_name == "s1":
                    e = ValueError("fail %d" % len(excs))
                    excs.append(e)
                    res = [native(StepWorkerFailed, exception=e, failed_at=1.0)]
                else:
                    entries += 1
                    if c.step_name != hname or not isinstance(c.event, StepFailedEvent) or c.event.exception is not excs[-1]:
                        return False
                    via_send = vias[min(entries - 1, 2)]
                    if via_send:
                        ic = new_ictx()
                        ic._internal_adapter = ad  # type: ignore[attr-defined]

                        async def body():
                            tok = StepWorkerStateContextVar.set(StepWorkerContext(
                                state=ip.shared_state, returns=Returns(return_values=[]), retry=retry))
                            try:
                                ic.send_event(EvA())  # REAL tagging
                            finally:
                                StepWorkerStateContextVar.reset(tok)
                            await asyncio.sleep(0)
                            await asyncio.sleep(0)

                        MiniLoop().run_until_complete(body())
                        runner.tick_buffer.extend(ad.sent)
                        ad.sent = []
                        res = [native(StepWorkerResult, result=None)]
                    else:
                        res = [native(StepWorkerResult, result=EvA())]
                runner.tick_buffer.append(mk_step_result(c.step_name, c.id, c.event, res))
    return failed_with is not None and entries == m and failed_with is excs[-1] and len(excs) == (m + 1) * (2 if retry_once else 1)


# ---------------------------------------------------------------------------------------------------------------
# a lineage that PARKS in wait_for_event: the invocation is ended (AddWaiter) and re-created when the wait ends
from workflows.runtime.types.results import AddWaiter  # noqa: E402
from workflows.runtime.types.ticks import TickWaiterTimeout  # noqa: E402


class _WaitWF8(Workflow):
    """same shape as _two_step_state(): s1 owned by h1 (budget 2), wildcard hw; only its step table is used (from_serialized)"""

    @step
    async def s1(self, ev: StartEvent | EvA) -> EvB:
        return EvB()

    @step
    async def s2(self, ev: EvB) -> StopEvent:
        return StopEvent()

    @catch_error(for_steps=["s1"], max_recoveries=2)
    async def h1(self, ev: StepFailedEvent) -> StopEvent:
        return StopEvent()

    @catch_error(max_recoveries=2)
    async def hw(self, ev: StepFailedEvent) -> StopEvent:
        return StopEvent()


_WAITWF8 = [native(_WaitWF8, timeout=None)]


@obligation(quick=120, thorough=300, partitions_quick=["how == 0", "how == 1"], partitions_thorough=[f"how == {h} and via == {v}" for h in (0, 1) for v in (0, 1)],
            what="hop (wait_for_event): an invocation that carries recovery counts parks in a wait (AddWaiter ends it, the waiter record holds its "
                 "event) and is re-created when the wait ends — by the awaited event (how 0) or by the wait's timeout (how 1), directly or after "
                 "the state went through to_serialized / from_serialized (via 1: a resumed run): the re-created invocation carries the SAME "
                 "recovery counts, so a handler whose budget on this lineage is spent is not entered again (the run fails with the original "
                 "exception) and one with budget left is entered with count + 1",
            bounds={"recovery_counts": "2 keys, presence symbolic, values 0..2 (owner h1: budget 2)", "wait ends by": "event / timeout",
                    "between park and wake-up": "nothing / serialize + deserialize"})
def ob_hop_wait_and_resume(p1: bool, n1: int, p2: bool, n2: int, how: int, via: int) -> bool:
    """
    pre: 0 <= n1 <= 2 and 0 <= n2 <= 2 and 0 <= how <= 1 and 0 <= via <= 1
    post: _
    """
    how, via, n1, n2 = conc(how, 0, 1), conc(via, 0, 1), conc(n1, 0, 2), conc(n2, 0, 2)
    p1, p2 = concb(p1), concb(p2)
    rc = _rc(p1, n1, p2, n2)
    with_native = native

    def scenario() -> bool:
        import json

        from workflows.context.context_types import SerializedContext
        from workflows.context.serializers import JsonSerializer

        st = _two_step_state()                           # s1 owned by h1 (max_recoveries 2), wildcard hw
        st.workers["s1"].in_progress = [in_progress("s1", EVA, 0, attempts=0, first_attempt_at=0, recovery_counts=dict(rc))]
        park = AddWaiter(waiter_id="w", requirements={}, timeout=5.0, event_type=EvB)
        st, _ = _reduce_tick(mk_step_result("s1", 0, EVA, [park]), st, 1, "r")
        if st.workers["s1"].in_progress or len(st.workers["s1"].collected_waiters) != 1:
            return False
        if via == 1:
            ser = JsonSerializer()
            wire = json.loads(json.dumps(st.to_serialized(ser).model_dump(mode="json")))
            st2 = BrokerState.from_serialized(SerializedContext.model_validate(wire), _WAITWF8[0], ser)
            if sorted(st2.config.catch_error_handlers) != ["h1", "hw"] or st2.config.handler_for_step.get("s1") != "h1":
                raise AssertionError("harness: the workflow's handler tables differ from the hand-built state's")
            st = st2
        if how == 0:
            st, _ = _reduce_tick(mk_add_event(EVB), st, 2)
        else:
            st, _ = _reduce_tick(TickWaiterTimeout(step_name="s1", waiter_id="w"), st, 2)
        ips = st.workers["s1"].in_progress
        if len(ips) != 1 or dict(ips[0].recovery_counts) != rc:
            return False
        st, cmds = _reduce_tick(mk_step_result("s1", ips[0].worker_id, EVA, [StepWorkerFailed(exception=EXC, failed_at=3.0)]), st, 3, "r")
        routed = [c for c in cmds if isinstance(c, CommandQueueEvent) and isinstance(c.event, StepFailedEvent)]
        fails = [c for c in cmds if isinstance(c, CommandFailWorkflow)]
        spent = rc.get("h1", 0) + 1 > 2
        if spent:
            return not routed and len(fails) == 1 and fails[0].exception is EXC
        return len(routed) == 1 and not fails and routed[0].step_name == "h1" and routed[0].recovery_counts.get("h1") == rc.get("h1", 0) + 1

    return with_native(scenario)
