"""C12 — pausing to a serialized context and resuming gives the same result.

* ``ob_roundtrip_stable``: for any REP state of a real two-step workflow, S = ``to_serialized`` -> ``model_dump`` -> JSON ->
  ``SerializedContext.from_dict_auto`` and D = ``from_serialized``:  D(S(D(S(s)))) equals D(S(s)) field by field (queues with
  retry info, collect buffers, waiters, running flag) — the serialized form is stable after one round trip;
* ``ob_resume_content``: ``rewind_in_progress(D(S(s)))`` — what ``Workflow.run(ctx=Context.from_dict(...))`` starts with —
  executes or queues exactly the not-yet-completed invocations of ``s`` (running ones and queued ones), each under its
  existing retry count, first-attempt stamp, last exception and recovery budget; collect buffers and waiters survive;
* ``ob_context_dict`` the same through the public ``Context.from_dict`` -> ``ctx._init_state`` path on a JSON round trip of the
  dict ``ExternalContext.to_dict`` builds (state store payload included);
* thorough ``ob_resume_run``: whole runs of a deterministic workflow on the virtual-time loop, snapshot (``ctx.to_dict()``
  through JSON) at a symbolic scheduling point, resumed with ``Context.from_dict`` on a fresh runtime: same result and state
  store contents as the uninterrupted run."""
from __future__ import annotations

import vlib.boot  # noqa: F401
from vlib.boot import B
from vlib.ob import obligation
from vlib.h_handlers import conc, concb, native
from vlib.world import EVA, EVB, EVC, EvA, EvB, EvC, rep_R1, rep_R2, waiter

import json

from workflows import Context, Workflow, step
from workflows.context.context_types import SerializedContext
from workflows.context.serializers import JsonSerializer
from workflows.events import StartEvent, StopEvent
from workflows.runtime.control_loop import rewind_in_progress
from workflows.runtime.types.internal_state import BrokerState, EventAttempt, InProgressState
from workflows.runtime.types.results import StepWorkerState

ENCODED = [
    "workflows.runtime.types.internal_state:BrokerState.to_serialized",
    "workflows.runtime.types.internal_state:BrokerState.from_serialized",
    "workflows.runtime.types.internal_state:BrokerState.from_workflow",
    "workflows.context.context_types:SerializedContext.from_dict_auto",
    "workflows.runtime.control_loop:rewind_in_progress",
    "workflows.runtime.control_loop:_add_or_enqueue_event",
    "workflows.context.context:Context.from_dict",
    "workflows.context.external_context:ExternalContext.to_dict",
]
ASSUMES = [
    "state shapes: step a (accepts EvA, num_workers 1..3, busy slots symbolic) with 0..2 queued attempts carrying symbolic "
    "retry info, optional waiter (pending / resolved), optional collect buffer; step b (accepts EvB / StartEvent, 1 worker); "
    "event payloads are module-level pool events (JSON-plain)",
    "pydantic / json execute concretely: every symbolic parameter is first forked to a concrete value, the solver decides "
    "the index space (which combinations exist), the real (de)serializers run on concrete data",
    "an invocation is identified by (step, event class, attempts, first_attempt_at, last exception type+text, recovery counts)",
    "waiter.requirements are documented as not serialized (has_requirements is) — C10's subject; timed_out is compared",
]
OUTSIDE = ["PickleSerializer", "V0 (legacy) context payloads", "more than two steps, queue > 2", "timers held by the runner (C14)"]

SER = JsonSerializer()
EXC = ValueError("boom")


class ABFlow(Workflow):
    """Real workflow providing the step configs ``from_serialized`` rebuilds the broker state from."""

    @step
    async def b(self, ev: StartEvent | EvB) -> EvA:
        return EvA()

    @step(num_workers=3)
    async def a(self, ev: EvA) -> StopEvent:
        return StopEvent()

    def _get_steps(self):
        # speed only: the REAL Workflow._get_steps (inspect.getmembers reflection over the instance), tracer off
        return native(Workflow._get_steps, self)


def _wf(nw: int):
    wf = ABFlow(disable_validation=True)
    st = BrokerState.from_workflow(wf)
    st.workers["a"].config.num_workers = nw
    st.config.steps["a"].num_workers = nw
    return wf, st


def _state(nw, b0, b1, b2, q, att, qa, wk, live, snap, bb, rc, running, t0=5.0):
    """A REP-shaped live state of ABFlow built from the real dataclasses."""
    wf, st = native(_wf, nw)
    st.is_running = running
    wa = st.workers["a"]
    ws = []
    if wk == 1:
        ws = [waiter("w1", EVA, EvC)]
    elif wk == 2:
        ws = [waiter("w1", EVA, EvC, resolved=EVC)]
    elif wk == 3:
        ws = [waiter("w1", EVA, EvC, timed_out=True)]
    elif wk == 4:
        ws = [waiter("w1", EVA, EvC, requirements={"k": 1})]   # requirement-bearing: only the has_requirements flag is serialized
    wa.collected_waiters = list(ws)
    if live > 0:
        wa.collected_events = {"buf": [EVB] * live}
    rcd = {"h": 1} if rc else {}
    for i, busy in enumerate((b0, b1, b2)):
        if busy:
            wa.in_progress.append(InProgressState(
                event=EVA, worker_id=i,
                shared_state=StepWorkerState(step_name="a", collected_events=({"buf": [EVB] * snap} if snap else {}), collected_waiters=list(ws)),
                attempts=att, first_attempt_at=t0, last_exception=(EXC if att > 0 else None), last_failed_at=(t0 + 1 if att > 0 else None),
                recovery_counts=dict(rcd)))
    for j in range(q):
        wa.queue.append(EventAttempt(event=EVA, attempts=(qa if j == 0 else 0), first_attempt_at=(t0 if qa and j == 0 else None),
                                     last_exception=(EXC if qa and j == 0 else None), last_failed_at=(t0 + 1 if qa and j == 0 else None),
                                     recovery_counts=(dict(rcd) if j == 0 else {})))
    if bb:
        st.workers["b"].in_progress.append(InProgressState(
            event=EVB, worker_id=0, shared_state=StepWorkerState(step_name="b", collected_events={}, collected_waiters=[]),
            attempts=0, first_attempt_at=t0))
    return wf, st


def _valid(nw, b0, b1, b2, q) -> bool:
    if not (1 <= nw <= 3) or (b1 and nw < 2) or (b2 and nw < 3):
        return False
    nb = (1 if b0 else 0) + (1 if b1 else 0) + (1 if b2 else 0)
    return 0 <= q <= 2 and (q == 0 or nb == nw)


def _trip(st, wf):
    """to_serialized -> python dict -> JSON text -> dict -> from_dict_auto -> from_serialized"""
    ser = st.to_serialized(SER)
    wire = json.dumps(ser.model_dump(mode="python"))
    parsed = SerializedContext.from_dict_auto(json.loads(wire))
    return BrokerState.from_serialized(parsed, wf, SER)


def _exc(e):
    return None if e is None else (type(e).__name__, str(e))


def _evk(e):
    return None if e is None else type(e).__name__


def _canon(state, with_slots: bool = True):
    """Field-by-field value of a state whose events went through a serializer (compare by class, not identity)."""
    out = [bool(state.is_running)]
    for name in sorted(state.workers):
        ws = state.workers[name]
        q = [(_evk(a.event), a.attempts or 0, a.first_attempt_at, _exc(a.last_exception), a.last_failed_at, sorted(a.recovery_counts.items())) for a in ws.queue]
        ip = sorted((x.worker_id if with_slots else 0, _evk(x.event), x.attempts, x.first_attempt_at, _exc(x.last_exception), x.last_failed_at,
                     sorted(x.recovery_counts.items())) for x in ws.in_progress)
        bufs = sorted((k, [_evk(e) for e in v]) for k, v in ws.collected_events.items())
        wts = [(w.waiter_id, _evk(w.event), w.waiting_for_event.__name__, _evk(w.resolved_event), bool(w.has_requirements), bool(w.timed_out))
               for w in ws.collected_waiters]
        out.append((name, q, ip, bufs, wts))
    return out


def _invocations(state, step):
    """Multiset of not-yet-completed invocations of a step: running ones and queued ones, with their retry identity."""
    ws = state.workers[step]
    items = [(_evk(x.event), x.attempts, x.first_attempt_at if x.attempts else None, _exc(x.last_exception), sorted(x.recovery_counts.items()))
             for x in ws.in_progress]
    items += [(_evk(a.event), a.attempts or 0, a.first_attempt_at if a.attempts else None, _exc(a.last_exception), sorted(a.recovery_counts.items()))
              for a in ws.queue]
    return sorted(items, key=repr)


@obligation(quick=200, thorough=600, partitions_quick=[f"nw == {n} and wk == {w}" for n in (1, 2, 3) for w in (0, 1, 2, 3, 4)],
            partitions_thorough=[f"nw == {n} and wk == {w} and att == {a}" for n in (1, 2, 3) for w in (0, 1, 2, 3, 4) for a in (0, 1, 2)],
            what="serialized form is stable after one round trip: D(S(D(S(s)))) == D(S(s)) (queues with retry info, buffers, waiters, running flag), "
                 "through model_dump -> JSON text -> from_dict_auto",
            bounds={"num_workers": "1..3", "queue": "0..2 (first entry with attempts 0..2)", "in-progress attempts": "0..2", "waiter": "none/pending/resolved(/timed out)/pending with requirements",
                    "buffer": "0..2 events"})
def ob_roundtrip_stable(nw: int, b0: bool, b1: bool, b2: bool, q: int, att: int, qa: int, wk: int, live: int, bb: bool, rc: bool, running: bool) -> bool:
    """
    pre: _valid(nw, b0, b1, b2, q) and 0 <= att <= 2 and 0 <= qa <= 2 and (0 <= wk <= WKMAX or wk == 4) and 0 <= live <= 2
    pre: q > 0 or qa == 0
    post: _
    """
    nw, q, att, qa, wk, live = conc(nw, 1, 3), conc(q, 0, 2), conc(att, 0, 2), conc(qa, 0, 2), conc(wk, 0, 4), conc(live, 0, 2)
    b0, b1, b2, bb, rc, running = concb(b0), concb(b1), concb(b2), concb(bb), concb(rc), concb(running)
    wf, st = _state(nw, b0, b1, b2, q, att, qa, wk, live, live, bb, rc, running)
    d1 = native(_trip, st, wf)
    d2 = native(_trip, d1, wf)
    return _canon(d1) == _canon(d2)


WKMAX = 3   # none / pending / resolved / timed out; plus kind 4 (pending with requirements)


@obligation(quick=200, thorough=600, partitions_quick=[f"nw == {n} and att == {a}" for n in (1, 2, 3) for a in (0, 1, 2)],
            partitions_thorough=[f"nw == {n} and att == {a} and wk == {w}" for n in (1, 2, 3) for a in (0, 1, 2) for w in (0, 1, 2, 3, 4)],
            what="resume content: rewind_in_progress(D(S(s))) runs/queues exactly the not-yet-completed invocations of s, each with its attempts, "
                 "first-attempt stamp, last exception and recovery counts; buffers, waiters and the running flag survive; REP holds",
            bounds={"num_workers": "1..3", "queue": "0..2 (first entry with attempts 0..2)", "in-progress attempts": "0..2", "recovery counts": "{} / {h:1}"})
def ob_resume_content(nw: int, b0: bool, b1: bool, b2: bool, q: int, att: int, qa: int, wk: int, live: int, bb: bool, rc: bool, running: bool) -> bool:
    """
    pre: _valid(nw, b0, b1, b2, q) and 0 <= att <= 2 and 0 <= qa <= 2 and (0 <= wk <= WKMAX or wk == 4) and 0 <= live <= 2
    pre: q > 0 or qa == 0
    post: _
    """
    nw, q, att, qa, wk, live = conc(nw, 1, 3), conc(q, 0, 2), conc(att, 0, 2), conc(qa, 0, 2), conc(wk, 0, 4), conc(live, 0, 2)
    b0, b1, b2, bb, rc, running = concb(b0), concb(b1), concb(b2), concb(bb), concb(rc), concb(running)
    wf, st = _state(nw, b0, b1, b2, q, att, qa, wk, live, live, bb, rc, running)
    back = native(_trip, st, wf)
    resumed, _cmds = rewind_in_progress(back, 9.0)
    if not (rep_R1(resumed) and rep_R2(resumed)):
        return False
    if bool(resumed.is_running) != running:
        return False
    for s in ("a", "b"):
        if _invocations(resumed, s) != _invocations(st, s):
            return False
    c0, c1 = _canon(st), _canon(resumed)
    for i in (1, 2):  # buffers and waiters per step
        if c0[i][3] != c1[i][3] or c0[i][4] != c1[i][4]:
            return False
    # a waiter that already timed out must still deliver its TimeoutError after the resume
    t0 = [bool(w.timed_out) for w in st.workers["a"].collected_waiters]
    t1 = [bool(w.timed_out) for w in resumed.workers["a"].collected_waiters]
    return t0 == t1


@obligation(quick=200, thorough=600, partitions_quick=[f"nw == {n}" for n in (1, 2, 3)], partitions_thorough=[f"nw == {n} and att == {a}" for n in (1, 2, 3) for a in (0, 1, 2)],
            what="public path: the dict Context/ExternalContext.to_dict produces for state s, sent through JSON, fed to Context.from_dict(workflow, data): "
                 "the context's initial broker state equals D(S(s)) and the state-store payload comes back equal",
            bounds={"as ob_roundtrip_stable": "", "store payload": "{} / one key"})
def ob_context_dict(nw: int, b0: bool, b1: bool, b2: bool, q: int, att: int, qa: int, wk: int, live: int, rc: bool, with_store: bool) -> bool:
    """
    pre: _valid(nw, b0, b1, b2, q) and 0 <= att <= 2 and 0 <= qa <= 2 and 0 <= wk <= 2 and 0 <= live <= 1
    pre: q > 0 or qa == 0
    post: _
    """
    nw, q, att, qa, wk, live = conc(nw, 1, 3), conc(q, 0, 2), conc(att, 0, 2), conc(qa, 0, 2), conc(wk, 0, 2), conc(live, 0, 1)
    b0, b1, b2, rc, with_store = concb(b0), concb(b1), concb(b2), concb(rc), concb(with_store)
    wf, st = _state(nw, b0, b1, b2, q, att, qa, wk, live, live, False, rc, True)

    def run():
        from workflows.context.state_store import DictState, InMemoryStateStore

        ser = st.to_serialized(SER)
        store = InMemoryStateStore(DictState(k=1) if with_store else DictState())
        ser.state = store.to_dict(SER)
        wire = json.dumps(ser.model_dump(mode="python"))
        return Context.from_dict(wf, json.loads(wire), serializer=SER), json.loads(json.dumps(ser.state))

    ctx, payload = native(run)
    want = native(_trip, st, wf)
    got = _ctx_init_state(ctx, wf)
    if got is None:
        return False
    snap = getattr(getattr(ctx, "_face", None), "_init_snapshot", None)
    if snap is None or snap.state != payload:
        return False
    return _canon(got) == _canon(want)


def _ctx_init_state(ctx, wf):
    """The broker state a pre-run Context built by from_dict carries (what Workflow.run(ctx=...) hands to the runtime)."""
    face = getattr(ctx, "_face", None)
    for attr in ("_init_state", "init_state", "_serialized_state", "_state"):
        v = getattr(face, attr, None)
        if isinstance(v, BrokerState):
            return v
    # PreContext keeps the parsed SerializedContext: rebuild the same way Workflow.run does
    for attr in ("_init_snapshot", "_serialized", "_serialized_context", "_snapshot", "init_snapshot"):
        v = getattr(face, attr, None)
        if isinstance(v, SerializedContext):
            return BrokerState.from_serialized(v, wf, SER)
    return None


# ----------------------------------------------------------------------------------------------- whole run


import asyncio  # noqa: E402

from workflows.events import Event  # noqa: E402
from workflows.retry_policy import retry_policy, stop_after_attempt, wait_fixed  # noqa: E402
from vlib.h_idle import install_speedups  # noqa: E402

install_speedups()  # tooling only; every solver decision is taken before the scenario starts


class PA(Event):
    i: int


class PB(Event):
    i: int


def _pause_wf(env, book, nfail):
    class PW(Workflow):
        @step
        async def start(self, ctx: Context, ev: StartEvent) -> PA:
            await ctx.store.set("started", True)
            return PA(i=1)

        @step
        async def a(self, ctx: Context, ev: PA) -> PB:
            await env.gate("a")
            await ctx.store.set("a_saw", ev.i)          # idempotent writes: a re-executed invocation writes the same value
            return PB(i=ev.i + 1)

        @step(retry_policy=retry_policy(wait=wait_fixed(0), stop=stop_after_attempt(4)))
        async def b(self, ctx: Context, ev: PB) -> StopEvent:
            await env.gate("b")
            if book["fails"] < nfail:
                book["fails"] += 1
                raise ValueError("transient")
            await ctx.store.set("b_saw", ev.i)
            return StopEvent(result=ev.i + 1)

    return PW


@obligation(quick=240, thorough=900, partitions_quick=[f"k == {k}" for k in range(1, 6)], partitions_thorough=[f"k == {k} and nfail == {f}" for k in range(1, 8) for f in (0, 1, 2)],
            what="whole run (real run() loop, virtual-time loop): the run is paused at its k-th scheduling point (k symbolic: before / while step a runs, "
                 "while step b runs its first or a retried attempt), ctx.to_dict() goes through JSON text, the original run is cancelled, and "
                 "Workflow.run(ctx=Context.from_dict(...)) on a FRESH workflow object and runtime finishes with the same result and the same "
                 "state-store contents as the uninterrupted run",
            bounds={"snapshot point": "1..5 (quick) / 1..7 (thorough)", "failures of step b": "0..1 (quick) / 0..2", "steps": "start -> a -> b(retry policy)"})
def ob_pause_resume_run(k: int, nfail: int) -> bool:
    """
    pre: 1 <= k <= KPAUSE and 0 <= nfail <= NFPAUSE
    post: _
    """
    from vlib.sched import Env, SymAdapter, SymRuntime, run_loop

    k, nfail = conc(k, 1, 7), conc(nfail, 0, 2)

    def run_once(pause_at):
        env = Env([])
        book = {"fails": 0, "points": 0, "snap": None, "handler": None}
        PW = _pause_wf(env, book, nfail)

        class PauseAdapter(SymAdapter):
            async def wait_for_next_task(self, running, pending, timeout=None):
                book["points"] += 1
                if pause_at is not None and book["points"] == pause_at and book["snap"] is None and book["handler"] is not None:
                    book["snap"] = json.loads(json.dumps(book["handler"].ctx.to_dict()))
                return await super().wait_for_next_task(running, pending, timeout)

        class Rt(SymRuntime):
            def get_internal_adapter(self, workflow):
                return PauseAdapter(super().get_internal_adapter(workflow), self.env)

        out = {}

        async def main():
            wf = PW(timeout=None, runtime=Rt(env))
            h = wf.run(run_id="r")
            book["handler"] = h
            if pause_at is None:
                out["result"] = await h
                out["state"] = (await h.ctx.store.get_state()).model_dump() if hasattr(await h.ctx.store.get_state(), "model_dump") else None
                return
            # wait until the snapshot was taken (or the run finished first), then kill the first life
            for _ in range(400):
                await asyncio.sleep(0)
                if book["snap"] is not None or h.done():
                    break
            if book["snap"] is None:
                out["finished_first"] = True
                out["result"] = await h
                return
            try:
                await h.cancel_run()
                await h
            except Exception:  # noqa: BLE001 - WorkflowCancelledByUser
                pass
            # second life: fresh workflow object, fresh runtime, fresh environment
            env2 = Env([])
            book2 = {"fails": book["fails"]}
            PW2 = _pause_wf(env2, book2, nfail)
            wf2 = PW2(timeout=None, runtime=SymRuntime(env2))
            h2 = wf2.run(ctx=Context.from_dict(wf2, book["snap"]), run_id="r2")
            out["result"] = await h2
            st = await h2.ctx.store.get_state()
            out["state"] = st.model_dump() if hasattr(st, "model_dump") else None

        run_loop(main)
        return out

    ref = run_once(None)
    got = run_once(k)
    if got.get("finished_first"):
        return got["result"] == ref["result"]
    return got.get("result") == ref["result"] and got.get("state") == ref["state"]


KPAUSE = B(5, 7)
NFPAUSE = B(1, 2)


# ----------------------------------------------------------------------------------------------- restored values are the run's own
_POOL = ["[]", "{}", "[1]", '{"x": []}', "0"]


def _restore_scenario(ka: int, kb: int, twice: bool, via_ctx: bool):
    """state {a: POOL[ka], b: POOL[kb]} -> to_dict -> JSON -> from_dict (with the module's ONE application-level serializer, as a server
    does); a is then mutated in place the way a step does inside edit_state(); returns what the statement constrains"""
    from workflows.context.state_store import DictState, InMemoryStateStore

    va, vb = json.loads(_POOL[ka]), json.loads(_POOL[kb])
    payload = json.loads(json.dumps(InMemoryStateStore(DictState(a=va, b=vb)).to_dict(SER)))

    def restore():
        return InMemoryStateStore.from_dict(json.loads(json.dumps(payload)), SER)

    def touch(v):
        if isinstance(v, list):
            v.append("touched")
        elif isinstance(v, dict):
            v["touched"] = True

    async def scenario():
        s1 = restore()
        before_b = json.dumps(await s1.get("b"))
        async with s1.edit_state() as st:
            touch(st.a)
        after_b = json.dumps(await s1.get("b"))
        a1 = json.dumps(await s1.get("a"))
        second = None
        if twice:
            s2 = restore()
            second = (json.dumps(await s2.get("a")), json.dumps(await s2.get("b")))
        return before_b, after_b, a1, second

    return vlib.boot.drive(scenario()), json.dumps(va), json.dumps(vb)


@obligation(quick=120, thorough=300, partitions_quick=[f"ka == {k}" for k in range(len(_POOL))],
            what="a state store restored from a snapshot (to_dict -> JSON -> from_dict through one long-lived serializer): its values equal the "
                 "snapshot's, an in-place update of one value (what a step does inside edit_state) changes no other value even when the two "
                 "were serialized to identical payloads, and a second restore of the same snapshot starts from the snapshot again, not from "
                 "what the first resumed run did to its objects",
            bounds={"values": "[] / {} / [1] / {'x': []} / 0 for each of two keys", "restores": "1..2"})
def ob_restored_values_independent(ka: int, kb: int, twice: bool) -> bool:
    """
    pre: 0 <= ka < len(_POOL) and 0 <= kb < len(_POOL)
    post: _
    """
    ka, kb, twice = conc(ka, 0, len(_POOL) - 1), conc(kb, 0, len(_POOL) - 1), concb(twice)
    (before_b, after_b, a1, second), va, vb = native(_restore_scenario, ka, kb, twice, False)
    if before_b != vb or after_b != vb:
        return False          # b differs from the snapshot, or moved when a was updated
    if second is not None and second != (va, vb):
        return False          # the second resume did not start from the snapshot
    return True


# ----------------------------------------------------------------------------------------------- values nobody passed to a constructor
from pydantic import BaseModel as _BM, Field as _Field  # noqa: E402


class _Progress(_BM):
    """a typed run state whose container fields start from their defaults and are filled in place by the steps"""

    seen: list = _Field(default_factory=list)
    notes: dict = _Field(default_factory=dict)
    count: int = 0


class _Job(Event):
    labels: list = _Field(default_factory=list)
    n: int = 0


def _typed_state_scenario(how: int, in_event: bool):
    from workflows.context.state_store import InMemoryStateStore
    from workflows.runtime.types.internal_state import EventAttempt as _EA

    async def scenario():
        store = InMemoryStateStore(_Progress())
        async with store.edit_state() as st:
            if how == 0:
                st.seen.append(1)            # default container filled in place
                st.notes["k"] = "v"
            elif how == 1:
                st.seen = [1]                # assigned
                st.notes = {"k": "v"}
            st.count = 2
        payload = json.loads(json.dumps(store.to_dict(SER)))
        back = InMemoryStateStore.from_dict(payload, SER)
        got = await back.get_state()
        return (list(got.seen), dict(got.notes), got.count)

    state_back = vlib.boot.drive(scenario())
    ev_back = None
    if in_event:
        job = _Job(n=3)
        job.labels.append("hot")             # a queued event whose default list was filled in place before it was sent
        ev_back = SER.deserialize(json.loads(json.dumps(SER.serialize(job))))
        ev_back = (type(ev_back).__name__, list(ev_back.labels), ev_back.n)
    return state_back, ev_back


@obligation(quick=90, thorough=200,
            what="a TYPED run state (and an event) whose container fields were never passed to the constructor but filled in place (or assigned) by "
                 "the steps: to_dict -> JSON -> from_dict brings back the values they held at the snapshot, not fresh class defaults",
            bounds={"how": "filled in place / assigned / untouched", "carriers": "InMemoryStateStore typed state, JsonSerializer event"})
def ob_unset_fields_survive_resume(how: int, in_event: bool) -> bool:
    """
    pre: 0 <= how <= 2
    post: _
    """
    how, in_event = conc(how, 0, 2), concb(in_event)
    state_back, ev_back = native(_typed_state_scenario, how, in_event)
    want = ([1], {"k": "v"}, 2) if how <= 1 else ([], {}, 2)
    if state_back != want:
        return False
    return ev_back is None or ev_back == ("_Job", ["hot"], 3)


# ----------------------------------------------------------------------------------------------- key names the serializer singles out
import workflows.context.state_store as _ss12  # noqa: E402

_KEYS12 = [k for k in getattr(_ss12, "KNOWN_UNSERIALIZABLE_KEYS", ()) if isinstance(k, str)] + ["plain"]


@obligation(quick=60, thorough=120,
            what="a DictState entry whose KEY is one of the names the snapshot code treats specially (KNOWN_UNSERIALIZABLE_KEYS, e.g. 'memory') but "
                 "whose value is ordinary JSON data: to_dict -> JSON -> from_dict brings it back (it is only to be skipped when it cannot be "
                 "serialized)",
            bounds={"keys": "KNOWN_UNSERIALIZABLE_KEYS + a plain control", "values": "[] / {} / [1] / {'x': []} / 0"})
def ob_special_key_names_survive(ki: int, vi: int) -> bool:
    """
    pre: 0 <= ki < len(_KEYS12) and 0 <= vi < len(_POOL)
    post: _
    """
    ki, vi = conc(ki, 0, len(_KEYS12) - 1), conc(vi, 0, len(_POOL) - 1)

    def scenario():
        from workflows.context.state_store import DictState, InMemoryStateStore

        key, val = _KEYS12[ki], json.loads(_POOL[vi])
        payload = json.loads(json.dumps(InMemoryStateStore(DictState(**{key: val, "other": 1})).to_dict(SER)))
        back = InMemoryStateStore.from_dict(payload, SER)
        return vlib.boot.drive(back.get(key, "MISSING")), val

    got, want = native(scenario)
    return json.dumps(got) == json.dumps(want)


# ----------------------------------------------------------------------------------------------- order of an event's dynamic fields
_PERM12 = [("zeta", "alpha", "mid"), ("alpha", "mid", "zeta"), ("mid", "zeta", "alpha"), ("b", "a", "c")]


@obligation(quick=60, thorough=120,
            what="an event with undeclared (dynamic) fields — StartEvent kwargs are the usual case — comes back from the snapshot with those fields in "
                 "the order they were given (a resumed step that renders or iterates ev.items() / ev.keys() produces what the uninterrupted one "
                 "does): through the JsonSerializer and through BrokerState.to_serialized -> JSON -> from_serialized for a queued event",
            bounds={"field name orders": len(_PERM12), "carrier": "serializer round trip / queued event in the context snapshot"})
def ob_dynamic_field_order_survives(pi: int, via_ctx: bool) -> bool:
    """
    pre: 0 <= pi < len(_PERM12)
    post: _
    """
    pi, via_ctx = conc(pi, 0, len(_PERM12) - 1), concb(via_ctx)

    def scenario():
        from workflows.events import StartEvent

        names = _PERM12[pi]
        ev = StartEvent(**{n: i for i, n in enumerate(names)})
        if not via_ctx:
            back = SER.deserialize(json.loads(json.dumps(SER.serialize(ev))))
        else:
            from workflows import Workflow, step
            from workflows.context.context_types import SerializedContext
            from workflows.events import StopEvent
            from workflows.runtime.types.internal_state import BrokerState, EventAttempt

            class W(Workflow):
                @step
                async def s(self, ev: StartEvent) -> StopEvent:
                    return StopEvent()

            wf = W(timeout=None)
            st = BrokerState.from_workflow(wf)
            st.is_running = True
            st.workers["s"].queue.append(EventAttempt(event=ev))
            wire = json.loads(json.dumps(st.to_serialized(SER).model_dump(mode="json")))
            back = BrokerState.from_serialized(SerializedContext.model_validate(wire), wf, SER).workers["s"].queue[0].event
        return list(back.keys()), [v for _k, v in back.items()], list(names)

    keys, vals, names = native(scenario)
    return keys == names and vals == [0, 1, 2]
