"""C30 - num_concurrent_runs=N: at most N runs of one workflow instance inside steps, every run executes, instances
have independent limits.

Two layers, both on ``vlib.h_async.SymLoop`` with symbolic start instants and symbolic body durations:

* ``ob_acquire_*`` (quick + thorough): run tasks enter a gated body (enter, sleep(h), leave) through the REAL
  ``BasicRuntime._maybe_acquire_max_concurrent_runs`` of a fresh ``BasicRuntime`` - the function that owns the
  per-instance semaphore table (a path costs ~0.2 s).
* ``ob_whole_runs`` (thorough only: ~5-15 s per path): the REAL ``Workflow.run()`` -> ``BasicRuntime.run_workflow`` ->
  control loop -> step worker of a one-step workflow whose step body is the gated body."""
from __future__ import annotations

import vlib.boot  # noqa: F401
from vlib.boot import B
from vlib.ob import obligation

import asyncio
import types

from vlib.h_async import FakeTimeModule, SymLoop, reraise_foreign
from vlib.h_idle import concrete, install_speedups

install_speedups()

import workflows.plugins.basic as basic
from workflows import Workflow, step
from workflows.events import StartEvent, StopEvent
from workflows.plugins.basic import BasicRuntime

ENCODED = [
    "workflows.plugins.basic:BasicRuntime._maybe_acquire_max_concurrent_runs",
    "workflows.plugins.basic:BasicRuntime.run_workflow",
    "workflows.plugins.basic:BasicRuntime.__init__",
    "workflows.workflow:Workflow.__init__",
    "workflows.workflow:Workflow.run",
    "workflows.runtime.types.step_function:create_workflow_run_function",
]
ASSUMES = [
    "event loop = vlib.h_async.SymLoop; nondeterminism = symbolic start instant and symbolic body duration per run",
    "ob_acquire_*: the workflow argument is a duck-typed object (the function reads only `_num_concurrent_runs` and "
    "id(workflow)); the limit is concretised by explicit forks before the Semaphore is built",
    "whole-run obligation: time.monotonic in workflows.plugins.basic reads the virtual clock (module attribute patched, "
    "restored in finally); workflow timeout=None; explicit run_id; fresh BasicRuntime per scenario",
    "'not delayed' for the second instance: a run of instance B that finds fewer than its own limit of B-runs active "
    "enters its body at its start instant (virtual time), whatever instance A's runs are doing",
]
OUTSIDE = ["limits > 3, more than 4+2 runs", "runs that fail while queued on the semaphore (cancellation: ob_cancel_while_queued)",
           "other runtimes (DBOS, server decorators)", "id() reuse after a workflow instance is garbage collected"]


class _Obs:
    def __init__(self, nruns: int) -> None:
        self.inside = [0, 0]
        self.peak = [0, 0]
        self.entered = [None] * nruns
        self.free_at_start = [False] * nruns
        self.done = [False] * nruns


def _judge(obs: _Obs, limits, inst, starts, n) -> bool:
    for k in (0, 1):
        if obs.peak[k] > limits[k]:
            return False  # more than N runs of one instance inside steps
    for i in range(n):
        if not obs.done[i] or obs.entered[i] is None:
            return False  # a started run never executed
        if inst[i] == 1 and obs.free_at_start[i] and obs.entered[i] != starts[i]:
            return False  # second instance delayed although below its own limit
    return True


def _acquire_scenario(limits, inst, starts, holds) -> bool:
    """Run tasks go through the REAL BasicRuntime._maybe_acquire_max_concurrent_runs around a gated body."""
    n = len(inst)
    loop = SymLoop()
    obs = _Obs(n)

    async def main():
        rt = BasicRuntime()
        # only `_num_concurrent_runs` and the identity of the workflow object are read by the code under test
        wfs = [types.SimpleNamespace(_num_concurrent_runs=limits[0]), types.SimpleNamespace(_num_concurrent_runs=limits[1])]

        async def one(i):
            await asyncio.sleep(starts[i])
            k = inst[i]
            obs.free_at_start[i] = obs.inside[k] < limits[k]
            async with rt._maybe_acquire_max_concurrent_runs(wfs[k], "r%d" % i):
                obs.inside[k] += 1
                if obs.inside[k] > obs.peak[k]:
                    obs.peak[k] = obs.inside[k]
                obs.entered[i] = loop.time()
                try:
                    await asyncio.sleep(holds[i])
                finally:
                    obs.inside[k] -= 1
                obs.done[i] = True

        res = await asyncio.gather(*[asyncio.ensure_future(one(i)) for i in range(n)], return_exceptions=True)
        reraise_foreign(res)
        for r in res:
            if isinstance(r, BaseException):
                raise r
        if len(rt._max_concurrent_runs) > 2:
            raise AssertionError("more semaphores than workflow instances")

    loop.run_until_complete(main())
    return _judge(obs, limits, inst, starts, n)


class _W(Workflow):
    """module-level (a class created per path would be re-analysed by CrossHair on every path); the scenario is handed over in
    instance attributes"""

    @step
    async def work(self, ev: StartEvent) -> StopEvent:
        obs, inst, holds, loop = self.sc
        i = ev.idx
        k = inst[i]
        obs.inside[k] += 1
        if obs.inside[k] > obs.peak[k]:
            obs.peak[k] = obs.inside[k]
        obs.entered[i] = loop.time()
        try:
            await asyncio.sleep(holds[i])
        finally:
            obs.inside[k] -= 1
        obs.done[i] = True
        return StopEvent(result=i)


def _whole_scenario(limits, inst, starts, holds) -> bool:
    n = len(inst)
    loop = SymLoop()
    obs = _Obs(n)

    def W(**kw):
        w = _W(**kw)
        w.sc = (obs, inst, holds, loop)
        return w

    async def main():
        rt = BasicRuntime()
        wfs = [W(timeout=None, num_concurrent_runs=limits[0], runtime=rt), W(timeout=None, num_concurrent_runs=limits[1], runtime=rt)]

        async def one(i):
            await asyncio.sleep(starts[i])
            k = inst[i]
            obs.free_at_start[i] = obs.inside[k] < limits[k]
            return await wfs[k].run(run_id="r%d" % i, idx=i)

        res = await asyncio.gather(*[asyncio.ensure_future(one(i)) for i in range(n)], return_exceptions=True)
        reraise_foreign(res)
        for r in res:
            if isinstance(r, BaseException):
                raise r
        for i in range(n):
            if res[i] != i:
                raise AssertionError("run %d returned %r" % (i, res[i]))

    old = basic.time
    basic.time = FakeTimeModule()
    try:
        loop.run_until_complete(main())
    finally:
        basic.time = old
    return _judge(obs, limits, inst, starts, n)


def _lim(n):
    """Concretise the limit by explicit forks (a symbolic Semaphore counter would cost a solver call per operation)."""
    if n == 1:
        return 1
    if n == 2:
        return 2
    if n == 3:
        return 3
    return 4


SA = B(1, 2)
HA = B(2, 2)


@obligation(quick=200, thorough=600, partitions_quick=[f"n == {n}" for n in (1, 2, 3)],
            partitions_thorough=[f"n == {n} and s0 == {a}" for n in (1, 2, 3) for a in (0, 1, 2)],
            what="direct semaphore path: 3 runs of one instance (limit n), symbolic start / duration",
            bounds={"N": "1..3", "runs of A": 3, "start": "0..SA", "hold": "0..HA"})
def ob_acquire_3(n: int, s0: int, s1: int, s2: int, h0: int, h1: int, h2: int) -> bool:
    """
    pre: 1 <= n <= 3
    pre: 0 <= s0 <= SA and 0 <= s1 <= SA and 0 <= s2 <= SA and 0 <= h0 <= HA and 0 <= h1 <= HA and 0 <= h2 <= HA
    post: _
    """
    return _acquire_scenario([_lim(n), 1], [0, 0, 0], [s0, s1, s2], [h0, h1, h2])


@obligation(quick=200, thorough=600, partitions_quick=[f"n == {n} and nb == {b}" for n in (1, 2) for b in (1, 2)],
            partitions_thorough=[f"n == {n} and nb == {b} and s2 == {c}" for n in (1, 2) for b in (1, 2) for c in (0, 1, 2)],
            what="direct semaphore path: 2 runs of instance A (limit n) + 1 run of instance B (limit nb): independence of instances",
            bounds={"N": "1..2", "runs of A": 2, "runs of B": 1, "start": "0..SA", "hold": "0..HA"})
def ob_acquire_2plus1(n: int, nb: int, s0: int, s1: int, s2: int, h0: int, h1: int, h2: int) -> bool:
    """
    pre: 1 <= n <= 2 and 1 <= nb <= 2
    pre: 0 <= s0 <= SA and 0 <= s1 <= SA and 0 <= s2 <= SA and 0 <= h0 <= HA and 0 <= h1 <= HA and 0 <= h2 <= HA
    post: _
    """
    return _acquire_scenario([_lim(n), _lim(nb)], [0, 0, 1], [s0, s1, s2], [h0, h1, h2])


_P42 = [f"n == {n} and s1 == {a} and s3 == {b} and s5 == {c}" for n in (1, 2, 3) for a in (0, 1) for b in (0, 1) for c in (0, 1)]


@obligation(quick=None, thorough=700, partitions_thorough=_P42,
            what="direct semaphore path: 4 runs of instance A (limit n) + 2 runs of instance B (limit 1); starts 0/1, durations symbolic",
            bounds={"N": "1..3", "runs of A": 4, "runs of B": 2, "start": "0..1 (A0, A2, B0 at 0)", "hold": "0..1, 1..2 for A0"})
def ob_acquire_4plus2(n: int, s1: int, s3: int, s5: int, h0: int, h1: int, h2: int, h3: int, h4: int) -> bool:
    """
    pre: 1 <= n <= 3 and 0 <= s1 <= 1 and 0 <= s3 <= 1 and 0 <= s5 <= 1
    pre: 1 <= h0 <= 2 and 0 <= h1 <= 1 and 0 <= h2 <= 1 and 0 <= h3 <= 1 and 0 <= h4 <= 1
    post: _
    """
    return _acquire_scenario([_lim(n), 1], [0, 0, 0, 0, 1, 1], [0, s1, 0, s3, 0, s5], [h0, h1, h2, h3, h4, 1])


@obligation(quick=None, thorough=800, partitions_thorough=[f"n == {n} and s1 == {a}" for n in (1, 2) for a in (0, 1)],
            what="whole runs (real Workflow.run -> BasicRuntime.run_workflow -> control loop -> step): 2 runs of instance A "
                 "(limit n) + 1 run of instance B (limit 1); step bodies gated",
            bounds={"N": "1..2", "runs of A": 2, "runs of B": 1, "start": "0..1", "hold": "0..1"})
def ob_whole_runs(n: int, s1: int, s2: int, h0: int, h1: int) -> bool:
    """
    pre: 1 <= n <= 2 and 0 <= s1 <= 1 and 0 <= s2 <= 1 and 0 <= h0 <= 1 and 0 <= h1 <= 1
    post: _
    """
    # decide every parameter before the scenario starts (the whole run then executes on concrete values)
    n, s1, s2, h0, h1 = concrete(n, 1, 2), concrete(s1, 0, 1), concrete(s2, 0, 1), concrete(h0, 0, 1), concrete(h1, 0, 1)
    return _whole_scenario([_lim(n), 1], [0, 0, 1], [0, s1, s2], [h0, h1, 0])


@obligation(quick=300, thorough=600,
            partitions_quick=[f"n == {n} and s1 == {a}" for n in (1, 2, 3) for a in (0, 1, 2)],
            partitions_thorough=[f"n == {n} and s1 == {a} and s2 == {b}" for n in (1, 2, 3) for a in (0, 1, 2, 3) for b in (0, 1, 2, 3)],
            what="whole runs through the REAL Workflow.run -> BasicRuntime.run_workflow (task done-callbacks, registry, semaphore map "
                 "included) -> control loop -> step: 4 runs of ONE instance with limit n, started at symbolic instants and holding their "
                 "slot for symbolic durations — runs that end while siblings still hold slots, then new starts: never more than n inside "
                 "steps, every run executes",
            bounds={"N": "1..3", "runs": 4, "start": "0..2 (thorough 3)", "hold": "1..2"})
def ob_whole_runs_one_instance(n: int, s1: int, s2: int, s3: int, h0: int, h1: int, h2: int, h3: int) -> bool:
    """
    pre: 1 <= n <= 3 and 0 <= s1 <= SW and 0 <= s2 <= SW and 0 <= s3 <= SW
    pre: 1 <= h0 <= 2 and 1 <= h1 <= 2 and 1 <= h2 <= 2 and 1 <= h3 <= 2
    post: _
    """
    n = concrete(n, 1, 3)
    s1, s2, s3 = concrete(s1, 0, SW), concrete(s2, 0, SW), concrete(s3, 0, SW)
    h0, h1, h2, h3 = concrete(h0, 1, 2), concrete(h1, 1, 2), concrete(h2, 1, 2), concrete(h3, 1, 2)
    return _whole_scenario([n, 1], [0, 0, 0, 0], [0, s1, s2, s3], [h0, h1, h2, h3])


SW = B(2, 3)


# --------------------------------------------------------------------------------------------------------------
# a run cancelled while it is still QUEUED for a slot must not change the limit
# --------------------------------------------------------------------------------------------------------------


def _cancel_scenario(limit: int, starts, holds, victim: int, cancel_at: int) -> bool:
    """4 runs of one instance through the REAL BasicRuntime._maybe_acquire_max_concurrent_runs; run ``victim`` is cancelled at
    ``cancel_at`` (possibly while queued on the semaphore, while holding a slot, before it started or after it finished)."""
    n = len(starts)
    loop = SymLoop()
    obs = _Obs(n)

    async def main():
        rt = BasicRuntime()
        wf = types.SimpleNamespace(_num_concurrent_runs=limit)

        async def one(i):
            await asyncio.sleep(starts[i])
            async with rt._maybe_acquire_max_concurrent_runs(wf, "r%d" % i):
                obs.inside[0] += 1
                if obs.inside[0] > obs.peak[0]:
                    obs.peak[0] = obs.inside[0]
                obs.entered[i] = loop.time()
                try:
                    await asyncio.sleep(holds[i])
                finally:
                    obs.inside[0] -= 1
                obs.done[i] = True

        tasks = [asyncio.ensure_future(one(i)) for i in range(n)]

        async def killer():
            await asyncio.sleep(cancel_at)
            tasks[victim].cancel()

        k = asyncio.ensure_future(killer())
        res = await asyncio.gather(*tasks, return_exceptions=True)
        await k
        reraise_foreign(res)
        for i, r in enumerate(res):
            if isinstance(r, BaseException) and not (i == victim and isinstance(r, asyncio.CancelledError)):
                raise r
        # afterwards the instance still admits exactly `limit` runs at once: probe with limit+1 fresh runs
        probe = _Obs(limit + 1)

        async def late(i):
            async with rt._maybe_acquire_max_concurrent_runs(wf, "p%d" % i):
                probe.inside[0] += 1
                if probe.inside[0] > probe.peak[0]:
                    probe.peak[0] = probe.inside[0]
                try:
                    await asyncio.sleep(1)
                finally:
                    probe.inside[0] -= 1
                probe.done[i] = True

        await asyncio.gather(*[asyncio.ensure_future(late(i)) for i in range(limit + 1)])
        obs.probe_peak = probe.peak[0]
        obs.probe_done = all(probe.done)

    loop.run_until_complete(main())
    if obs.peak[0] > limit or obs.probe_peak != limit or not obs.probe_done:
        return False
    for i in range(n):
        if i != victim and not obs.done[i]:
            return False  # a run that was not cancelled never executed
    return True


@obligation(quick=150, thorough=400, partitions_quick=[f"n == {k} and victim == {v}" for k in (1, 2) for v in (1, 2, 3)],
            partitions_thorough=[f"n == {k} and victim == {v} and cancel_at == {c}" for k in (1, 2, 3) for v in (1, 2, 3) for c in range(4)],
            what="a run cancelled at a symbolic instant (before it started, while QUEUED for a slot, while running, after it finished) never changes "
                 "the limit: peak concurrency stays <= N during the scenario and is exactly N for N+1 fresh runs afterwards; the other runs all execute",
            bounds={"limit": "1..2 (thorough 1..3)", "runs": 4, "starts": "0..1", "holds": "1..2", "cancel instant": "0..3"})
def ob_cancel_while_queued(n: int, s1: int, s2: int, s3: int, h0: int, h1: int, victim: int, cancel_at: int) -> bool:
    """
    pre: 1 <= n <= NCMAX and 0 <= s1 <= 1 and 0 <= s2 <= 1 and 0 <= s3 <= 1 and 1 <= h0 <= 2 and 1 <= h1 <= 2
    pre: 1 <= victim <= 3 and 0 <= cancel_at <= 3
    post: _
    """
    n = 1 if n == 1 else (2 if n == 2 else 3)
    victim = 1 if victim == 1 else (2 if victim == 2 else 3)
    return _cancel_scenario(n, [0, s1, s2, s3], [h0, h1, 1, 1], victim, cancel_at)


NCMAX = B(2, 3)


# --------------------------------------------------------------------------------------------------------------
# a run CONTINUED from a snapshotted context is a run of the instance like any other
# --------------------------------------------------------------------------------------------------------------
from workflows import Context  # noqa: E402
from workflows.errors import WorkflowCancelledByUser  # noqa: E402
from workflows.events import Event  # noqa: E402


class Mid30(Event):
    idx: int


class _WC(Workflow):
    """module-level; scenario in instance attributes.  Run index 0 is the one that gets interrupted (cancel_run while ``work`` is in flight)
    and continued from its snapshot; in its first life the step just hangs (not counted), in the continuation it works like the others."""

    @step
    async def first(self, ev: StartEvent) -> Mid30:
        return Mid30(idx=ev.idx)

    @step
    async def work(self, ev: Mid30) -> StopEvent:
        obs, holds, loop, book = self.sc
        i = ev.idx
        if i == 0 and book["life"] == 1:
            await asyncio.sleep(1000)
        obs.inside[0] += 1
        if obs.inside[0] > obs.peak[0]:
            obs.peak[0] = obs.inside[0]
        obs.entered[i] = loop.time()
        try:
            await asyncio.sleep(holds[i])
        finally:
            obs.inside[0] -= 1
        obs.done[i] = True
        return StopEvent(result=i)


def _continued_scenario(limit: int, starts, holds) -> bool:
    """run 0 of an instance with limit ``limit`` is interrupted and then CONTINUED (workflow.run(ctx=Context.from_dict(...))) at starts[0];
    runs 1.. are fresh runs of the same instance started at starts[i]; run i works for holds[i]."""
    import json

    n = len(starts)
    loop = SymLoop()
    obs = _Obs(n)
    book = {"life": 1}

    async def main():
        rt = BasicRuntime()
        wf = _WC(timeout=None, num_concurrent_runs=limit, runtime=rt)
        wf.sc = (obs, holds, loop, book)
        h = wf.run(run_id="r0-first-life", idx=0)
        await asyncio.sleep(1)
        await h.cancel_run()
        try:
            await h
            raise AssertionError("the interrupted run finished")
        except WorkflowCancelledByUser:
            pass
        snap = json.loads(json.dumps(h.ctx.to_dict()))
        book["life"] = 2

        async def one(i):
            await asyncio.sleep(starts[i])
            if i == 0:
                return await wf.run(ctx=Context.from_dict(wf, snap), run_id="r0")
            return await wf.run(run_id="r%d" % i, idx=i)

        res = await asyncio.gather(*[asyncio.ensure_future(one(i)) for i in range(n)], return_exceptions=True)
        reraise_foreign(res)
        for r in res:
            if isinstance(r, BaseException):
                raise r
        for i in range(n):
            if res[i] != i:
                raise AssertionError("run %d returned %r" % (i, res[i]))

    old = basic.time
    basic.time = FakeTimeModule()
    try:
        loop.run_until_complete(main())
    finally:
        basic.time = old
    return obs.peak[0] <= limit and all(obs.done)


@obligation(quick=300, thorough=600, partitions_quick=[f"n == {n} and sc == {a}" for n in (1, 2) for a in (0, 1, 2)],
            partitions_thorough=[f"n == {n} and sc == {a} and s1 == {b}" for n in (1, 2, 3) for a in (0, 1, 2) for b in (0, 1, 2)],
            what="a run interrupted with cancel_run and CONTINUED from its snapshot (workflow.run(ctx=Context.from_dict(...)): no StartEvent) next "
                 "to fresh runs of the same instance, through the REAL Workflow.run -> BasicRuntime.run_workflow -> control loop -> step: the "
                 "continued run counts against num_concurrent_runs like any other — never more than N runs inside steps, every run executes",
            bounds={"N": "1..2 (thorough 3)", "runs": "1 continued + 3 fresh", "start": "0..2", "hold": "1..2 (quick: the third fresh run starts at 0 and holds 1)"})
def ob_continued_run_counts(n: int, sc: int, s1: int, s2: int, s3: int, hc: int, h1: int, h2: int, h3: int) -> bool:
    """
    pre: 1 <= n <= NC30 and 0 <= sc <= 2 and 0 <= s1 <= 2 and 0 <= s2 <= 2 and 0 <= s3 <= 2
    pre: 1 <= hc <= 2 and 1 <= h1 <= 2 and 1 <= h2 <= 2 and 1 <= h3 <= 2
    pre: NC30 == 3 or (s3 == 0 and h3 == 1)
    post: _
    """
    n = concrete(n, 1, 3)
    sc, s1, s2, s3 = concrete(sc, 0, 2), concrete(s1, 0, 2), concrete(s2, 0, 2), concrete(s3, 0, 2)
    hc, h1, h2, h3 = concrete(hc, 1, 2), concrete(h1, 1, 2), concrete(h2, 1, 2), concrete(h3, 1, 2)
    return _continued_scenario(n, [sc, s1, s2, s3], [hc, h1, h2, h3])


NC30 = B(2, 3)


# --------------------------------------------------------------------------------------------------------------
# a run that ends while one of its steps is still unwinding from the cancellation keeps its slot until that step is out
# --------------------------------------------------------------------------------------------------------------
class Quick30(Event):
    idx: int


class Slow30(Event):
    idx: int


class _WU(Workflow):
    """fan -> quick (ends the run after hq) and slow (in flight when the run ends: cancelled by the run's clean-up, takes `u` loop iterations
    to unwind).  The scenario counts RUNS that have a step executing."""

    @step
    async def fan(self, ctx: Context, ev: StartEvent) -> Quick30 | Slow30:
        self._enter(ev.idx)
        try:
            ctx.send_event(Slow30(idx=ev.idx))
            return Quick30(idx=ev.idx)
        finally:
            self._leave(ev.idx)

    def _enter(self, i: int) -> None:
        runs, peak = self.sc[0], self.sc[1]
        runs[i] = runs.get(i, 0) + 1
        live = len([k for k, v in runs.items() if v > 0])
        if live > peak[0]:
            peak[0] = live

    def _leave(self, i: int) -> None:
        self.sc[0][i] -= 1

    @step
    async def quick(self, ev: Quick30) -> StopEvent:
        self._enter(ev.idx)
        try:
            await asyncio.sleep(self.sc[2][ev.idx])
        finally:
            self._leave(ev.idx)
        return StopEvent(result=ev.idx)

    @step
    async def slow(self, ev: Slow30) -> None:
        self._enter(ev.idx)
        try:
            try:
                await asyncio.sleep(1000)
            except asyncio.CancelledError:
                u = self.sc[3]                        # tidying up after the cancellation takes a few loop iterations / some time
                if u == 4:
                    await asyncio.sleep(0.25)         # (shorter than the clean-up's own grace period)
                else:
                    for _ in range(u):
                        await asyncio.sleep(0)
                raise
        finally:
            self._leave(ev.idx)
        return None


def _unwind_scenario(limit: int, starts, holds, unwind: int) -> bool:
    n = len(starts)
    loop = SymLoop()
    runs: dict = {}
    peak = [0]

    async def main():
        rt = BasicRuntime()
        wf = _WU(timeout=None, num_concurrent_runs=limit, runtime=rt)
        wf.sc = (runs, peak, holds, unwind)

        async def one(i):
            await asyncio.sleep(starts[i])
            return await wf.run(run_id="r%d" % i, idx=i)

        res = await asyncio.gather(*[asyncio.ensure_future(one(i)) for i in range(n)], return_exceptions=True)
        reraise_foreign(res)
        for i, r in enumerate(res):
            if isinstance(r, BaseException):
                raise r
            if r != i:
                raise AssertionError("run %d returned %r" % (i, r))

    old = basic.time
    basic.time = FakeTimeModule()
    try:
        loop.run_until_complete(main())
    finally:
        basic.time = old
    return peak[0] <= limit


@obligation(quick=240, thorough=600, partitions_quick=[f"n == {n} and u == {u}" for n in (1, 2) for u in (0, 1, 4)],
            partitions_thorough=[f"n == {n} and u == {u} and s1 == {s}" for n in (1, 2) for u in (0, 1, 3, 4) for s in (0, 1, 2)],
            what="runs that END while one of their steps is still in flight (a parallel branch returned the StopEvent; the in-flight step is "
                 "cancelled by the run's clean-up and needs a few loop iterations, or a quarter of a second, to unwind): the run's slot is not handed to a queued run while "
                 "that step is still executing — never more than N runs with a step executing",
            bounds={"N": "1..2", "runs": 3, "start": "0..2", "time to the StopEvent": "1..2", "unwinding": "0 / 1 (thorough 3) loop iterations, or 0.25 s"})
def ob_slot_held_until_steps_unwound(n: int, u: int, s1: int, s2: int, h0: int, h1: int, h2: int) -> bool:
    """
    pre: 1 <= n <= 2 and (u == 0 or u == 1 or u == 4 or u == UNW30) and 0 <= s1 <= 2 and 0 <= s2 <= 2
    pre: 1 <= h0 <= 2 and 1 <= h1 <= 2 and 1 <= h2 <= 2
    post: _
    """
    n, u = concrete(n, 1, 2), concrete(u, 0, 5)
    s1, s2 = concrete(s1, 0, 2), concrete(s2, 0, 2)
    h0, h1, h2 = concrete(h0, 1, 2), concrete(h1, 1, 2), concrete(h2, 1, 2)
    return _unwind_scenario(n, [0, s1, s2], [h0, h1, h2], u)


UNW30 = B(4, 3)
