"""C30 - num_concurrent_runs=N: at most N runs of one workflow instance inside steps, every run executes, instances
have independent limits.

Two layers, both on ``vlib.h_async.SymLoop`` with symbolic start instants and symbolic body durations:

* ``ob_gated_*`` (quick + thorough): the REAL ``BasicRuntime.run_workflow`` / ``_maybe_acquire_max_concurrent_runs``
  create the run tasks and the per-instance semaphore; only the registered run function is replaced - through the
  public ``Runtime.register`` hook - by a gated body (enter, sleep(h), leave), so a path costs ~0.2 s instead of ~3 s.
* ``ob_whole_runs`` (thorough; a 2-run instance in quick): the REAL ``Workflow.run()`` -> ``BasicRuntime.run_workflow``
  -> control loop -> step worker, one-step workflow whose step body is the gated body."""
from __future__ import annotations

import vlib.boot  # noqa: F401
from vlib.boot import B
from vlib.ob import obligation

import asyncio

from vlib.h_async import FakeTimeModule, SymLoop, reraise_foreign

import workflows.plugins.basic as basic
from workflows import Workflow, step
from workflows.events import StartEvent, StopEvent
from workflows.plugins.basic import BasicRuntime
from workflows.runtime.types.internal_state import BrokerState
from workflows.runtime.types.plugin import RegisteredWorkflow

ENCODED = [
    "workflows.plugins.basic:BasicRuntime._maybe_acquire_max_concurrent_runs",
    "workflows.plugins.basic:BasicRuntime.run_workflow",
    "workflows.plugins.basic:BasicRuntime.__init__",
    "workflows.workflow:Workflow.__init__",
    "workflows.workflow:Workflow.run",
    "workflows.runtime.types.step_function:create_workflow_run_function",
]
ASSUMES = [
    "event loop = vlib.h_async.SymLoop; nondeterminism = symbolic start instant and symbolic body duration per run",
    "gated obligations: Runtime.register (public hook) returns the real RegisteredWorkflow record whose workflow_run_fn "
    "is a gated body; everything else of run_workflow (state store, queues, task, semaphore) is the real code",
    "whole-run obligation: time.monotonic in workflows.plugins.basic reads the virtual clock (module attribute patched, "
    "restored in finally); workflow timeout=None; explicit run_id; fresh BasicRuntime per scenario",
    "'not delayed' for the second instance: a run of instance B that finds fewer than its own limit of B-runs active "
    "enters its body at its start instant (virtual time), whatever instance A's runs are doing",
]
OUTSIDE = ["limits > 3, more than 4+2 runs", "runs that fail or are cancelled while queued on the semaphore",
           "other runtimes (DBOS, server decorators)", "id() reuse after a workflow instance is garbage collected"]


class _Obs:
    def __init__(self, nruns: int) -> None:
        self.inside = [0, 0]
        self.peak = [0, 0]
        self.entered = [None] * nruns
        self.free_at_start = [False] * nruns
        self.done = [False] * nruns


def _judge(obs: _Obs, limits, inst, starts, n) -> bool:
    for k in (0, 1):
        if obs.peak[k] > limits[k]:
            return False  # more than N runs of one instance inside steps
    for i in range(n):
        if not obs.done[i] or obs.entered[i] is None:
            return False  # a started run never executed
        if inst[i] == 1 and obs.free_at_start[i] and obs.entered[i] != starts[i]:
            return False  # second instance delayed although below its own limit
    return True


def _gated_scenario(limits, inst, starts, holds) -> bool:
    n = len(inst)
    loop = SymLoop()
    obs = _Obs(n)

    class W(Workflow):
        @step
        async def work(self, ev: StartEvent) -> StopEvent:
            return StopEvent()

    class GatedRuntime(BasicRuntime):
        def register(self, workflow):
            real = super().register(workflow)

            async def gated_run(init_state, start_event=None, tags=None):
                i = start_event.idx
                k = inst[i]
                obs.inside[k] += 1
                if obs.inside[k] > obs.peak[k]:
                    obs.peak[k] = obs.inside[k]
                obs.entered[i] = loop.time()
                try:
                    await asyncio.sleep(holds[i])
                finally:
                    obs.inside[k] -= 1
                obs.done[i] = True
                return StopEvent(result=i)

            return RegisteredWorkflow(workflow=real.workflow, workflow_run_fn=gated_run, steps=real.steps)

    async def main():
        rt = GatedRuntime()
        wfs = [W(timeout=None, num_concurrent_runs=limits[0], runtime=rt), W(timeout=None, num_concurrent_runs=limits[1], runtime=rt)]
        states = [BrokerState.from_workflow(w) for w in wfs]

        async def one(i):
            await asyncio.sleep(starts[i])
            k = inst[i]
            obs.free_at_start[i] = obs.inside[k] < limits[k]
            ext = rt.run_workflow("r%d" % i, wfs[k], states[k], StartEvent(idx=i))
            return await ext.get_result()

        res = await asyncio.gather(*[asyncio.ensure_future(one(i)) for i in range(n)], return_exceptions=True)
        reraise_foreign(res)
        for r in res:
            if isinstance(r, BaseException):
                raise r

    loop.run_until_complete(main())
    return _judge(obs, limits, inst, starts, n)


def _whole_scenario(limits, inst, starts, holds) -> bool:
    n = len(inst)
    loop = SymLoop()
    obs = _Obs(n)

    class W(Workflow):
        @step
        async def work(self, ev: StartEvent) -> StopEvent:
            i = ev.idx
            k = inst[i]
            obs.inside[k] += 1
            if obs.inside[k] > obs.peak[k]:
                obs.peak[k] = obs.inside[k]
            obs.entered[i] = loop.time()
            try:
                await asyncio.sleep(holds[i])
            finally:
                obs.inside[k] -= 1
            obs.done[i] = True
            return StopEvent(result=i)

    async def main():
        rt = BasicRuntime()
        wfs = [W(timeout=None, num_concurrent_runs=limits[0], runtime=rt), W(timeout=None, num_concurrent_runs=limits[1], runtime=rt)]

        async def one(i):
            await asyncio.sleep(starts[i])
            k = inst[i]
            obs.free_at_start[i] = obs.inside[k] < limits[k]
            return await wfs[k].run(run_id="r%d" % i, idx=i)

        res = await asyncio.gather(*[asyncio.ensure_future(one(i)) for i in range(n)], return_exceptions=True)
        reraise_foreign(res)
        for r in res:
            if isinstance(r, BaseException):
                raise r
        for i in range(n):
            if res[i] != i:
                raise AssertionError("run %d returned %r" % (i, res[i]))

    old = basic.time
    basic.time = FakeTimeModule()
    try:
        loop.run_until_complete(main())
    finally:
        basic.time = old
    return _judge(obs, limits, inst, starts, n)


SG = B(2, 2)
HG = B(2, 2)


@obligation(quick=150, thorough=500,
            partitions_quick=[f"n == {n}" for n in (1, 2, 3)], partitions_thorough=[f"n == {n} and nb == {b}" for n in (1, 2, 3) for b in (1, 2)],
            what="gated bodies: 3 runs of instance A (limit n) + 1 run of instance B (limit nb), symbolic start / duration",
            bounds={"N": "1..3", "runs of A": 3, "runs of B": 1, "start": "0..SG", "hold": "0..HG"})
def ob_gated_3plus1(n: int, nb: int, s0: int, s1: int, s2: int, s3: int, h0: int, h1: int, h2: int, h3: int) -> bool:
    """
    pre: 1 <= n <= 3 and 1 <= nb <= 2
    pre: 0 <= s0 <= SG and 0 <= s1 <= SG and 0 <= s2 <= SG and 0 <= s3 <= SG
    pre: 0 <= h0 <= HG and 0 <= h1 <= HG and 0 <= h2 <= HG and 0 <= h3 <= HG
    post: _
    """
    return _gated_scenario([n, nb], [0, 0, 0, 1], [s0, s1, s2, s3], [h0, h1, h2, h3])
