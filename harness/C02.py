"""C02 — every emitted event reaches each accepting step exactly once (or only the addressed step), a waiting step
gets it as its wait result, an event nobody accepts is reported once as UnhandledEvent (except InputRequiredEvent),
and no event is delivered to a step that does not accept it.

Shape: (1) one-step routing obligation on the real reducer from an arbitrary REP state against an oracle written from
the statement; (2) the hop step-result -> CommandQueueEvent -> TickAddEvent (buffer or timer heap) -> pop, exactly
once and not before its deadline, on the real _ControlLoopRunner; (3) conservation: nothing else enters or leaves a
step's queue/in-progress multiset; (4, thorough) whole runs under symbolic schedules."""
from __future__ import annotations

import vlib.boot  # noqa: F401
from vlib.boot import B, drive
from vlib.ob import obligation
from workflows import Context, Workflow, step  # noqa: F401,E402  (module scope for step annotations)
from vlib.world import (
    EVA, EVB, EVC, ASK, EvA, EvB, EvC, AskEv, StartEvent, StubPolicy, W_PENDING, world_ab, world_ab_valid,
)

from workflows.events import Event, StopEvent, UnhandledEvent
from workflows.runtime.control_loop import _ControlLoopRunner, _reduce_tick
from workflows.runtime.types.commands import CommandPublishEvent, CommandQueueEvent, CommandRunWorker
from workflows.runtime.types.plugin import InternalRunAdapter
from workflows.runtime.types.results import StepWorkerResult
from workflows.runtime.types.ticks import TickAddEvent, TickStepResult

ENCODED = [
    "workflows.runtime.control_loop:_process_add_event_tick",
    "workflows.runtime.control_loop:_process_step_result_tick",
    "workflows.runtime.control_loop:_add_or_enqueue_event",
    "workflows.runtime.control_loop:_ControlLoopRunner.process_command",
    "workflows.runtime.control_loop:_ControlLoopRunner.schedule_tick",
    "workflows.runtime.control_loop:_ControlLoopRunner.pop_due_ticks",
    "workflows.runtime.control_loop:_ControlLoopRunner._process_tick",
]
ASSUMES = [
    "pre-state satisfies REP (C01 shows REP is inductive)",
    "a target step name, when given, names a step that accepts the event's exact type (enforced by "
    "Workflow._validate_valid_step_message on every ctx.send_event(step=...) path)",
    "events are opaque pool instances tracked by identity; the adapter is a recording stub (environment)",
    "'waiting' = a waiter that is pending (not yet resolved, not timed out)",
]
OUTSIDE = ["subclass-accepting routing (by design routing is by exact type)", "num_workers > 2 for the routed step, queues > 2"]

QMAX = B(1, 2)

# fresh instances so identity tracking cannot confuse the routed event with pre-existing ones
E_A, E_B, E_C, E_ASK = EvA(), EvB(), EvC(), AskEv()


# (event kind, target) pairs allowed by the target-validity precondition
_ET = [(0, 0), (0, 1), (0, 2), (1, 0), (1, 2), (2, 0), (2, 1), (2, 2), (3, 0)]


def _count(ws, ev) -> int:
    return sum(1 for x in ws.queue if x.event is ev) + sum(1 for x in ws.in_progress if x.event is ev)


def _shape(ws):
    return [id(x.event) for x in ws.in_progress], [id(x.event) for x in ws.queue]


@obligation(quick=150, thorough=300,
            partitions_quick=[f"evk == {e} and target == {t} and nw == {n}" for (e, t) in _ET for n in (1, 2)],
            partitions_thorough=[f"evk == {e} and target == {t} and nw == {n} and a_acc_c == {a}" for (e, t) in _ET for n in (1, 2) for a in (False, True)
                                 if not ((e, t) == (2, 1) and not a)],   # EvC addressed to a step that does not accept it is rejected before it becomes a tick
            what="routing of TickAddEvent(e, target) against the statement's oracle: accepting steps get e exactly once, "
                 "pending matching waiters get it as wait result, others untouched, UnhandledEvent exactly when nobody takes it",
            bounds={"steps": 2, "num_workers(a)": "1..2", "queue": "0..QMAX", "waiter": "none/pending/resolved/timed-out",
                    "event": "EvA/EvB/EvC/InputRequired subclass", "target": "none/a/b", "b accepts": "EvB,Start (+EvA) (+EvC)", "a accepts": "EvA (+EvC = the type its waiter waits for)"})
def ob_route_add_event(nw: int, b0: bool, b1: bool, q: int, wk: int, evk: int, target: int, b_acc_a: bool, b_acc_c: bool,
                       bb: bool, bq: int, a_acc_c: bool = False) -> bool:
    """
    pre: 1 <= nw <= 2 and world_ab_valid(nw, b0, b1, False, q, bb, bq) and q <= QMAX and bq <= 1
    pre: 0 <= wk <= 3 and 0 <= evk <= 3 and 0 <= target <= 2
    pre: target != 1 or evk == 0 or (evk == 2 and a_acc_c)
    pre: target != 2 or evk == 1 or (evk == 0 and b_acc_a) or (evk == 2 and b_acc_c)
    post: _
    """
    b_accepts = [EvB, StartEvent] + ([EvA] if b_acc_a else []) + ([EvC] if b_acc_c else [])
    # step a may also ACCEPT the type its waiter waits for (EvC): then a pending waiter takes the event as wait result and a
    # stale (resolved / timed-out) or absent waiter leaves it to be delivered as an ordinary input
    st = world_ab(nw, b0, b1, False, q, wait_kind=wk, b_busy=bb, b_q=bq, b_accepts=b_accepts, a_accepts=([EvA, EvC] if a_acc_c else [EvA]))
    ev = E_A if evk == 0 else (E_B if evk == 1 else (E_C if evk == 2 else E_ASK))
    tgt = None if target == 0 else ("a" if target == 1 else "b")
    tick = TickAddEvent.model_construct(event=ev, step_name=tgt, attempts=None, first_attempt_at=None,
                                        last_exception=None, last_failed_at=None, recovery_counts={})
    st2, cmds = _reduce_tick(tick, st, 1)
    # ---- oracle from the statement
    a_waits = wk == W_PENDING and evk == 2 and (tgt is None or tgt == "a")  # a's waiter waits for EvC
    accepts = {"a": evk == 0 or (evk == 2 and a_acc_c), "b": evk == 1 or (evk == 0 and b_acc_a) or (evk == 2 and b_acc_c)}
    W = {"a"} if a_waits else set()
    A = {s for s in ("a", "b") if accepts[s] and (tgt is None or tgt == s) and s not in W}
    for s in ("a", "b"):
        before, after = st.workers[s], st2.workers[s]
        if _count(after, ev) != (1 if s in A else 0):
            return False
        n_before = len(before.queue) + len(before.in_progress)
        n_after = len(after.queue) + len(after.in_progress)
        if n_after != n_before + (1 if s in A else 0) + (1 if s in W else 0):
            return False
    w_after = st2.workers["a"].collected_waiters
    w_before = st.workers["a"].collected_waiters
    if len(w_after) != len(w_before):
        return False
    if w_before:
        if "a" in W:
            if w_after[0].resolved_event is not ev:
                return False
        else:
            if w_after[0].resolved_event is not w_before[0].resolved_event or w_after[0].timed_out != w_before[0].timed_out:
                return False
    unhandled = [c for c in cmds if isinstance(c, CommandPublishEvent) and isinstance(c.event, UnhandledEvent)]
    expect_unhandled = 1 if (not A and not W and evk != 3) else 0
    if len(unhandled) != expect_unhandled:
        return False
    # a RunWorker command hands exactly the entry's event to exactly that step
    for c in cmds:
        if isinstance(c, CommandRunWorker):
            ip = [x for x in st2.workers[c.step_name].in_progress if x.worker_id == c.id]
            if len(ip) != 1 or ip[0].event is not c.event:
                return False
            if type(c.event) not in st2.config.steps[c.step_name].accepted_events:
                return False
    return True


class _RecAdapter(InternalRunAdapter):
    """Environment stub: records, never blocks. Clock = scripted non-decreasing ints."""

    def __init__(self, t0: int, dt: int) -> None:
        self.now = t0
        self.dt = dt
        self.published: list = []
        self.ticks: list = []

    @property
    def run_id(self) -> str:
        return "r"

    async def write_to_event_stream(self, event) -> None:
        self.published.append(event)

    async def get_now(self) -> float:
        return self.now

    async def send_event(self, tick) -> None:
        raise vlib.boot.HarnessError("unexpected")

    async def wait_receive(self, timeout_seconds=None):
        raise vlib.boot.HarnessError("unexpected")

    async def on_tick(self, tick) -> None:
        self.ticks.append(tick)

    def get_state_store(self):
        return None


@obligation(quick=60, thorough=200, what="a step's returned event (not a StopEvent) becomes exactly one untargeted CommandQueueEvent carrying it",
            bounds={"num_workers": "1..2", "queue": "0..QMAX", "returned": "EvB/EvC/InputRequired subclass"})
def ob_result_to_queue_cmd(nw: int, b0: bool, b1: bool, q: int, retk: int, t0: int) -> bool:
    """
    pre: 1 <= nw <= 2 and b0 and world_ab_valid(nw, b0, b1, False, q) and q <= QMAX
    pre: 0 <= retk <= 2 and 0 <= t0 <= 2
    post: _
    """
    st = world_ab(nw, b0, b1, False, q)
    ret = E_B if retk == 0 else (E_C if retk == 1 else E_ASK)
    tick = TickStepResult.model_construct(step_name="a", worker_id=0, event=EVA, result=[StepWorkerResult.model_construct(result=ret)])
    st2, cmds = _reduce_tick(tick, st, t0, "r")
    qcmds = [c for c in cmds if isinstance(c, CommandQueueEvent)]
    return len(qcmds) == 1 and qcmds[0].event is ret and qcmds[0].step_name is None and not qcmds[0].delay


@obligation(quick=90, thorough=300,
            partitions_quick=["not has_delay", "has_delay and delay <= 0", "has_delay and delay == 1", "has_delay and delay == 2", "has_delay and delay == 3"],
            partitions_thorough=["not has_delay", "has_delay and delay <= 0", "has_delay and delay == 1", "has_delay and delay == 2", "has_delay and delay == 3"],
            what="one CommandQueueEvent (untargeted, or a retry addressed to one step) -> exactly one TickAddEvent with the same address and "
                 "attempt bookkeeping (tick_buffer when delay<=0/None, timer heap when delay>0) "
                 "-> popped exactly once, never before its deadline (real _ControlLoopRunner.process_command/schedule_tick/pop_due_ticks)",
            bounds={"delay": "None,-1..3", "clock": "ints 0..8", "other heap entries": "0..1"})
def ob_queue_event_hop(retk: int, has_delay: bool, delay: int, t0: int, dt1: int, dt2: int, other: int, targeted: bool = False, att: int = 0) -> bool:
    """
    pre: 0 <= retk <= 2 and -1 <= delay <= 3 and 0 <= t0 <= 2 and 0 <= dt1 <= 3 and 0 <= dt2 <= 3 and -1 <= other <= 4 and 0 <= att <= 2
    post: _
    """
    ret = E_B if retk == 0 else (E_C if retk == 1 else E_ASK)
    # hop 2: the real runner turns the command into one tick, in the buffer or the heap
    ad = _RecAdapter(t0, 0)
    runner = _ControlLoopRunner.__new__(_ControlLoopRunner)
    runner.adapter = ad
    runner.tick_buffer = []
    runner.scheduled_wakeups = []
    runner._wakeup_sequence = 0
    runner._pending_workers = []
    runner._idle_check_pending = False
    if other >= 0:
        runner.schedule_tick(TickAddEvent(event=E_A), at_time=other)
    # a retry is a TARGETED command (only the step that failed gets the event again) carrying the attempt bookkeeping
    cmd = CommandQueueEvent(event=ret, delay=(delay if has_delay else None), step_name=("a" if targeted else None),
                            attempts=(att if targeted else None), first_attempt_at=(1.0 if targeted else None),
                            recovery_counts=({"h": 1} if targeted else {}))
    drive(runner.process_command(cmd))
    in_buf = [t for t in runner.tick_buffer if isinstance(t, TickAddEvent) and t.event is ret]
    in_heap = [e for e in runner.scheduled_wakeups if e[2].event is ret]
    immediate = (not has_delay) or delay <= 0

    def same_address(t) -> bool:
        return (t.step_name == cmd.step_name and t.attempts == cmd.attempts and t.first_attempt_at == cmd.first_attempt_at
                and dict(t.recovery_counts) == dict(cmd.recovery_counts))

    if immediate:
        if len(in_buf) != 1 or in_heap:
            return False
        return same_address(in_buf[0])
    if in_buf or len(in_heap) != 1 or in_heap[0][0] != t0 + delay:
        return False
    if not same_address(in_heap[0][2]):
        return False
    # hop 3: popped exactly once, at the first poll at/after the deadline, never earlier
    now1 = t0 + dt1
    due1 = runner.pop_due_ticks(now1)
    got1 = [t for t in due1 if t.event is ret]
    if now1 < t0 + delay:
        if got1:
            return False
    else:
        if len(got1) != 1:
            return False
    now2 = now1 + dt2
    due2 = runner.pop_due_ticks(now2)
    got2 = [t for t in due2 if t.event is ret]
    total = len(got1) + len(got2)
    if now2 >= t0 + delay:
        return total == 1
    return total == 0


@obligation(quick=90, thorough=300, partitions_quick=[f"kind == {k}" for k in range(3)], partitions_thorough=[f"kind == {k}" for k in range(3)],
            what="conservation on TickStepResult: the ticking worker's entry leaves, queued work moves FIFO into free slots, "
                 "nothing else appears or disappears in any step",
            bounds={"num_workers": "1..3", "queue": "0..2"})
def ob_step_result_conservation(nw: int, b0: bool, b1: bool, b2: bool, q: int, wid: int, kind: int, bb: bool, bq: int) -> bool:
    """
    pre: world_ab_valid(nw, b0, b1, b2, q, bb, bq) and q <= 2 and bq <= 1
    pre: 0 <= wid <= 2 and (b0 if wid == 0 else (b1 if wid == 1 else b2))
    pre: 0 <= kind <= 2
    post: _
    """
    st = world_ab(nw, b0, b1, b2, q, b_busy=bb, b_q=bq)
    # distinct queued instances so FIFO order is observable
    qevs = [EvA() for _ in range(q)]
    for i in range(q):
        st.workers["a"].queue[i].event = qevs[i]
    ret = None if kind == 0 else (E_B if kind == 1 else E_C)
    tick = TickStepResult.model_construct(step_name="a", worker_id=wid, event=EVA, result=[StepWorkerResult(result=ret)])
    st2, cmds = _reduce_tick(tick, st, 1, "r")
    a1, a2 = st.workers["a"], st2.workers["a"]
    if len(a2.queue) + len(a2.in_progress) != len(a1.queue) + len(a1.in_progress) - 1:
        return False
    kept = [x for x in a1.in_progress if x.worker_id != wid]
    for x in kept:
        if not any(y.worker_id == x.worker_id and y.event is x.event for y in a2.in_progress):
            return False
    moved = [y.event for y in a2.in_progress if not any(x.worker_id == y.worker_id for x in kept)]
    if [id(e) for e in moved] + [id(x.event) for x in a2.queue] != [id(e) for e in qevs]:
        return False
    # step b untouched by a's completion (its output travels as a CommandQueueEvent, not directly)
    if _shape(st.workers["b"]) != _shape(st2.workers["b"]):
        return False
    return True


# ------------------------------------------------------------------ thorough: whole runs under symbolic schedules

class Wb(Event):
    """module level: step annotations are resolved against the module scope"""

    i: int


class Wc(Event):
    i: int


class Wd(Event):
    i: int


@obligation(quick=None, thorough=900, partitions_thorough=[f"c0 == {a} and c1 == {b}" for a in range(3) for b in range(3)],
            what="whole run (real Workflow.run/BasicRuntime/control_loop/step workers on MiniLoop): fan-out by ctx.send_event, a "
                 "targeted send, a returned event; per-step invocation multiset equals the statement's expectation under every schedule",
            bounds={"schedule decisions": 6, "options per decision": "<=3", "num_workers(work)": "1..2"})
def ob_whole_run_delivery(nw: int, c0: int, c1: int, c2: int, c3: int, c4: int, c5: int) -> bool:
    """
    pre: 1 <= nw <= 2
    pre: 0 <= c0 <= 2 and 0 <= c1 <= 2 and 0 <= c2 <= 2 and 0 <= c3 <= 2 and 0 <= c4 <= 2 and 0 <= c5 <= 2
    post: _
    """
    from vlib.sched import Env, SymRuntime, run_loop
    from workflows import Context, Workflow, step

    nw, c0, c1, c2, c3, c4, c5 = conc(nw, 1, 2), conc(c0, 0, 2), conc(c1, 0, 2), conc(c2, 0, 2), conc(c3, 0, 2), conc(c4, 0, 2), conc(c5, 0, 2)
    env = Env([c0, c1, c2, c3, c4, c5])
    log: list = []

    class W(Workflow):
        @step
        async def start(self, ctx: Context, ev: StartEvent) -> Wb | Wd | None:
            log.append(("start", -1))
            ctx.send_event(Wb(i=0))
            ctx.send_event(Wb(i=1))
            ctx.send_event(Wd(i=7), step="only_d1")
            return Wb(i=2)

        @step(num_workers=nw)
        async def work(self, ev: Wb) -> Wc:
            log.append(("work", ev.i))
            env.enter("work")
            await env.gate()
            env.leave("work")
            return Wc(i=ev.i)

        @step
        async def only_d1(self, ev: Wd) -> None:
            log.append(("d1", ev.i))

        @step
        async def only_d2(self, ev: Wd) -> None:
            log.append(("d2", ev.i))

        @step
        async def join(self, ctx: Context, ev: Wc) -> StopEvent | None:
            log.append(("join", ev.i))
            got = ctx.collect_events(ev, [Wc, Wc, Wc])
            if got is None:
                return None
            return StopEvent(result=sorted(e.i for e in got))

    res: list = []

    async def main():
        h = W(timeout=None, runtime=SymRuntime(env)).run(run_id="r")
        res.append(await h)

    run_loop(main)
    works = sorted(i for (s, i) in log if s == "work")
    joins = sorted(set(i for (s, i) in log if s == "join"))
    return (res == [[0, 1, 2]] and works == [0, 1, 2] and joins == [0, 1, 2]
            and [x for x in log if x[0] == "d1"] == [("d1", 7)] and not [x for x in log if x[0] == "d2"]
            and env.maxrun.get("work", 0) <= nw)


# ------------------------------------------------------------------ whole run with timers (quick + thorough)

from vlib.h_handlers import conc  # noqa: E402
from vlib.h_idle import install_speedups  # noqa: E402

install_speedups()  # tooling only; every solver decision is taken before the scenario starts


class TNote(Event):
    i: int


class TJobEv(Event):
    pass


class TFin(Event):
    pass


@obligation(quick=240, thorough=600, partitions_quick=[f"d == {d} and t1 == {a}" for d in (1, 2) for a in range(d + 2)],
            partitions_thorough=[f"d == {d} and t1 == {a} and hold == {h}" for d in (1, 2, 3) for a in range(d + 2) for h in (0, 1, 2)],
            what="whole run of the real run() loop with the REAL BasicRuntime adapter (asyncio.wait with the timer timeout) on the virtual-time loop: a "
                 "step is in its retry back-off (timer pending) while the caller sends two events at symbolic instants and the step taking them "
                 "stays busy for a symbolic time (so timer expiries and mailbox pulls interleave in every order): each sent event is delivered to "
                 "its step exactly once, the retry happens, the run completes",
            bounds={"retry delay d": "1..2 (thorough 3)", "send instants": "0..d+1", "busy time of the receiving step": "0..2"})
def ob_whole_run_sends_during_backoff(d: int, t1: int, t2: int, hold: int) -> bool:
    """
    pre: 1 <= d <= DBACK and 0 <= t1 <= d + 1 and t1 <= t2 <= d + 1 and 0 <= hold <= 2
    post: _
    """
    import asyncio

    import workflows.plugins.basic as basic_mod
    import workflows.runtime.types.step_function as sf_mod
    from vlib.h_idle import FakeTime
    from vlib.miniloop import MiniLoop
    from workflows.retry_policy import retry_policy, stop_after_attempt, wait_fixed

    d, t1, t2, hold = conc(d, 1, 3), conc(t1, 0, 4), conc(t2, 0, 4), conc(hold, 0, 2)
    got: list = []
    attempts: list = []

    class W(Workflow):
        @step
        async def start(self, ctx: Context, ev: StartEvent) -> TJobEv:
            return TJobEv()

        @step(retry_policy=retry_policy(wait=wait_fixed(d), stop=stop_after_attempt(3)))
        async def work(self, ctx: Context, ev: TJobEv) -> None:
            attempts.append(ctx.retry_info().retry_number)
            if len(attempts) == 1:
                raise ValueError("transient")
            return None

        @step
        async def note(self, ctx: Context, ev: TNote) -> None:
            got.append(ev.i)
            if hold:
                await asyncio.sleep(hold)
            return None

        @step
        async def fin(self, ctx: Context, ev: TFin) -> StopEvent:
            return StopEvent(result="done")

    loop = MiniLoop()
    res: list = []

    async def main():
        h = W(timeout=None, disable_validation=True, runtime=basic_mod.BasicRuntime()).run(run_id="r")  # fresh runtime per path (hermetic)

        async def send(at, i):
            await asyncio.sleep(at)
            h.ctx.send_event(TNote(i=i))

        s1, s2 = asyncio.ensure_future(send(t1, 1)), asyncio.ensure_future(send(t2, 2))
        await s1
        await s2
        await asyncio.sleep(d + hold + hold + 3)
        h.ctx.send_event(TFin())
        res.append(await asyncio.wait_for(h, timeout=20))

    saved = (basic_mod.time, sf_mod.time)
    basic_mod.time = sf_mod.time = FakeTime(loop)
    try:
        loop.run_until_complete(main())
    finally:
        basic_mod.time, sf_mod.time = saved
    return res == ["done"] and sorted(got) == [1, 2] and attempts == [0, 1]


DBACK = B(2, 3)


# ------------------------------------------------------------------------------------------------ one workflow object, several runs
# A server keeps ONE workflow object and starts, resumes and starts runs on it.  What an earlier run's snapshot contained must never reach a
# later FRESH run: "each event is handed exactly once" includes "not again to the next run".
import json as _json  # noqa: E402

from workflows.context.context_types import SerializedContext as _SerCtx  # noqa: E402
from workflows.context.serializers import JsonSerializer as _JS  # noqa: E402
from workflows.events import StartEvent as _StartEv, StopEvent as _StopEv  # noqa: E402
from workflows.runtime.types.internal_state import BrokerState as _BS, EventAttempt as _EA  # noqa: E402


class E2A(Event):
    pass


class E2B(Event):
    pass


class _ReuseFlow(Workflow):
    @step
    async def a(self, ev: E2A) -> E2B:
        return E2B()

    @step
    async def b(self, ev: E2B | _StartEv) -> _StopEv:
        return _StopEv()


def _state_shape(state) -> list:
    return [bool(state.is_running)] + [(n, len(ws.queue), len(ws.in_progress), sorted(ws.collected_events), len(ws.collected_waiters))
                                       for n, ws in sorted(state.workers.items())]


@obligation(quick=60, thorough=120,
            what="one workflow OBJECT: a snapshot with pending work (q queued events, a collect buffer, running flag) is resumed on it "
                 "(BrokerState.from_serialized, as Context.from_dict + run do), then a FRESH run's initial state is asked for "
                 "(BrokerState.from_workflow, as every run() without a context does) - once or twice: the fresh state is pristine, exactly "
                 "like the one of a new object of the class",
            bounds={"queued events in the snapshot": "0..2", "resumes before the fresh run": "1..2"})
def ob_fresh_run_after_a_resume_on_the_same_object(q: int, resumes: int, buffered: bool) -> bool:
    """
    pre: 0 <= q <= 2 and 1 <= resumes <= 2
    post: _
    """
    from vlib.h_handlers import conc, concb, native

    q, resumes, buffered = conc(q, 0, 2), conc(resumes, 1, 2), concb(buffered)

    def scenario():
        ser = _JS()
        wf = _ReuseFlow(disable_validation=True)
        live = _BS.from_workflow(wf).deepcopy()
        live.is_running = True
        for _ in range(q):
            live.workers["a"].queue.append(_EA(event=E2A()))
        if buffered:
            live.workers["a"].collected_events["buf"] = [E2A()]
        wire = _json.dumps(live.to_serialized(ser).model_dump(mode="python"))
        for _ in range(resumes):
            _BS.from_serialized(_SerCtx.from_dict_auto(_json.loads(wire)), wf, ser)
        fresh = _BS.from_workflow(wf)
        pristine = _BS.from_workflow(_ReuseFlow(disable_validation=True))
        return _state_shape(fresh), _state_shape(pristine)

    got, want = native(scenario)
    return got == want


# ----------------------------------------------------------------------------------------------- an ANSWERED wait across snapshot + resume
class Answer02(Event):
    v: int


class _AskWF(Workflow):
    """`ask` waits for an Answer02; once answered it works for a long while in its first life (that is where the run is interrupted) and
    finishes at once in the resumed life — WITHOUT anybody sending the answer a second time"""

    @step
    async def ask(self, ctx: Context, ev: _StartEv) -> _StopEv:
        import asyncio

        a = await ctx.wait_for_event(Answer02, waiter_id="q")
        if self.life[0] == 1:
            await asyncio.sleep(1000)
        return _StopEv(result=a.v)


@obligation(quick=150, thorough=300, partitions_quick=[f"ta == {t}" for t in (0, 1, 2)], partitions_thorough=[f"ta == {t} and c == {c}" for t in (0, 1, 2) for c in (1, 2, 3)],
            what="an event that a WAITING step was sent stays that step's wait result across ctx.to_dict() -> JSON -> Context.from_dict: the run is "
                 "interrupted (cancel_run) after the awaited event resolved the wait and while the woken invocation is still working; the "
                 "resumed run completes with the value of that event although nobody sends it again",
            bounds={"answer sent at": "0..2", "interrupted": "1..3 after the answer"})
def ob_answered_wait_survives_resume(ta: int, c: int) -> bool:
    """
    pre: 0 <= ta <= 2 and 1 <= c <= 3
    post: _
    """
    import asyncio

    import workflows.plugins.basic as basic_mod
    import workflows.runtime.types.step_function as sf_mod
    from vlib.h_idle import FakeTime
    from vlib.miniloop import MiniLoop
    from workflows.errors import WorkflowCancelledByUser

    ta, c = conc(ta, 0, 2), conc(c, 1, 3)
    life = [1]
    loop = MiniLoop()
    out: dict = {}

    def mk():
        w = _AskWF(timeout=None, runtime=basic_mod.BasicRuntime())
        w.life = life
        return w

    async def main():
        h1 = mk().run(run_id="r1")
        await asyncio.sleep(ta)
        h1.ctx.send_event(Answer02(v=42))
        await asyncio.sleep(c)
        await h1.cancel_run()
        try:
            out["first"] = ("finished", await h1)
            return
        except WorkflowCancelledByUser:
            out["first"] = ("cancelled", None)
        snap = _json.loads(_json.dumps(h1.ctx.to_dict()))
        life[0] = 2
        w2 = mk()
        h2 = w2.run(ctx=Context.from_dict(w2, snap), run_id="r2")
        try:
            out["second"] = ("result", await asyncio.wait_for(h2, timeout=30))
        except asyncio.TimeoutError:
            out["second"] = ("HUNG", None)
        except Exception as e:  # noqa: BLE001
            out["second"] = ("error", repr(e))

    saved = (basic_mod.time, sf_mod.time)
    basic_mod.time = sf_mod.time = FakeTime(loop)
    try:
        loop.run_until_complete(main())
    finally:
        basic_mod.time, sf_mod.time = saved
    return out.get("first") == ("cancelled", None) and out.get("second") == ("result", 42)
