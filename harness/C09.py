"""C09 — ctx.collect_events returns each full set once, ordered as ``expected``, and events arriving while other
invocations of the collecting step run are neither lost nor counted twice.

Shape:
* ``ob_collect_fn``: the REAL ``InternalContext.collect_events`` as a function of (snapshot buffer, ev, expected) with
  symbolic multiplicities over three event classes, against an independently written multiset oracle.
* ``ob_reducer_add`` / ``ob_reducer_delete``: one real ``_reduce_tick`` step from an arbitrary REP state (inductive):
  stale snapshot => no append + re-run of the SAME worker with the refreshed snapshot; fresh => append exactly once;
  DeleteCollectedEvent applied only when the step completed.
* ``ob_composed``: bounded composition — symbolic arrival types, worker limit and interleaving of deliveries and worker
  completions drive the real reducer and the real collect_events in a loop; committed lists are pairwise disjoint
  (none twice) and every arrival ends in the buffer, in a committed list, or was declined as surplus (none lost).
"""
from __future__ import annotations

import vlib.boot  # noqa: F401
from vlib.boot import B
from vlib.ob import obligation
from vlib.h_handlers import Done, call_collect, conc, concb, mk_add_event, mk_step_result, find_ip, ident_count, ident_in, nth_ip, same_ids
from vlib.world import (
    EvA, EvB, EvC, StubPolicy, broker, busy_ids, in_progress, rep_R1, rep_R2, step_config, worker_state,
)

from workflows.events import StartEvent
from workflows.runtime.control_loop import _reduce_tick
from workflows.runtime.types.commands import CommandPublishEvent, CommandQueueEvent, CommandRunWorker
from workflows.runtime.types.internal_state import EventAttempt
from workflows.runtime.types.results import (
    AddCollectedEvent, AddWaiter, DeleteCollectedEvent, StepWorkerFailed, StepWorkerResult,
)
from workflows.runtime.types.ticks import TickAddEvent, TickStepResult

ENCODED = [
    "workflows.context.internal_context:InternalContext.collect_events",
    "workflows.runtime.control_loop:_reduce_tick",
    "workflows.runtime.control_loop:_process_step_result_tick",
    "workflows.runtime.control_loop:_process_add_event_tick",
    "workflows.runtime.control_loop:_add_or_enqueue_event",
    "workflows.runtime.types.internal_state:InternalStepWorkerState._deepcopy",
    "workflows.runtime.types.results:StepWorkerState._deepcopy",
]
ASSUMES = [
    "a collecting step calls ctx.collect_events(ev, expected) once per invocation with a fixed `expected`, returns None "
    "when it gets None and an output event when it gets a list (the result list is assembled as the real step wrapper "
    "does: return_values appended by collect_events, then StepWorkerResult)",
    "the worker's snapshot is the in_progress entry's shared_state (what _ControlLoopRunner.run_worker passes)",
    "pre-state of the one-step obligations satisfies REP: R1/R2, every snapshot buffer is a prefix of the live buffer or "
    "the live buffer was popped since (live shorter)",
    "event payloads are opaque; identity of event objects is what is tracked",
    "an invocation whose result the reducer discards and re-runs (stale AddCollectedEvent) is not a committed invocation",
    "an event the real collect_events declines because its snapshot already holds the expected multiplicity of its type "
    "is 'surplus' (dropped by design, also sequentially), not 'lost'",
]
OUTSIDE = [
    "more than 3 event classes, multiplicity > 2, more arrivals than the bound, num_workers > 3",
    "several buffers used by one step at once; steps that call collect_events more than once per invocation",
    "asyncio task scheduling (the interleaving is chosen symbolically at reducer-tick granularity)",
]

QMAX = 2    # queue length bound of the one-step obligations
MULT_B = B(1, 2)  # multiplicity bounds of the second / third class (first class: 0..2 in both tiers)
MULT_C = B(1, 2)
VARIANTS = B(False, True)  # non-contiguous `expected` and reversed buffer order: thorough tier only

# identity-distinct instances
A_POOL = [EvA(), EvA(), EvA()]
B_POOL = [EvB(), EvB(), EvB()]
C_POOL = [EvC(), EvC(), EvC()]
OUT = Done()


def _cls(k: int):
    return EvA if k == 0 else (EvB if k == 1 else EvC)


def _expected(ea: int, eb: int, ec: int, order: int, split: bool):
    groups = [[EvA] * ea, [EvB] * eb, [EvC] * ec]
    if order == 1:
        groups = [groups[1], groups[2], groups[0]]
    elif order == 2:
        groups = [groups[2], groups[0], groups[1]]
    out = groups[0] + groups[1] + groups[2]
    if split and len(out) >= 2:
        out = out[1:] + out[:1]  # e.g. [A, A, B] -> [A, B, A]: a type need not be contiguous in `expected`
    return out


def _shared(step, buf_id, events):
    from workflows.runtime.types.results import StepWorkerState

    return StepWorkerState(step_name=step, collected_events=({buf_id: list(events)} if events is not None else {}), collected_waiters=[])


@obligation(quick=80, thorough=400,
            partitions_quick=[f"evk == {e}" for e in range(3)],
            partitions_thorough=[f"evk == {e} and order == {o} and ea == {a}" for e in range(3) for o in range(3) for a in range(3)],
            what="collect_events(snapshot, ev, expected): list iff buffer+[ev] completes expected exactly now; ordered as "
                 "expected; AddCollectedEvent iff ev still needed; DeleteCollectedEvent iff it returns",
            bounds={"classes": 3, "multiplicity A": "0..2", "multiplicity B,C": "0..1 quick / 0..2 thorough",
                    "expected order": "3 rotations (x non-contiguous x reversed buffer in thorough)"})
def ob_collect_fn(na: int, nb: int, nc: int, ea: int, eb: int, ec: int, evk: int, order: int, split: bool, brev: bool) -> bool:
    """
    pre: 0 <= na <= 2 and 0 <= nb <= MULT_B and 0 <= nc <= MULT_C
    pre: 0 <= ea <= 2 and 0 <= eb <= MULT_B and 0 <= ec <= MULT_C and ea + eb + ec >= 1
    pre: 0 <= evk <= 2 and 0 <= order <= 2
    pre: VARIANTS or not (split or brev)
    post: _
    """
    return _collect_case(na, nb, nc, ea, eb, ec, evk, order, split, brev, False, False)


@obligation(quick=60, thorough=120,
            what="collect_events buffer id handling: default id 'default', custom id, buffer absent from the snapshot, "
                 "other buffers untouched",
            bounds={"classes": 2, "multiplicity": "0..1"})
def ob_collect_buffer_id(na: int, nb: int, evk: int, custom_id: bool, absent: bool) -> bool:
    """
    pre: 0 <= na <= 1 and 0 <= nb <= 1 and 0 <= evk <= 1
    pre: (not absent) or (na + nb == 0)
    post: _
    """
    return _collect_case(na, nb, 0, 1, 1, 0, evk, 0, False, False, custom_id, absent)


def _collect_case(na, nb, nc, ea, eb, ec, evk, order, split, brev, custom_id, absent) -> bool:
    na, nb, nc, ea, eb, ec = conc(na, 0, 2), conc(nb, 0, 2), conc(nc, 0, 2), conc(ea, 0, 2), conc(eb, 0, 2), conc(ec, 0, 2)
    evk, order = conc(evk, 0, 2), conc(order, 0, 2)
    split, brev, custom_id, absent = concb(split), concb(brev), concb(custom_id), concb(absent)
    buf = A_POOL[:na] + B_POOL[:nb] + C_POOL[:nc]
    if brev:
        buf = list(reversed(buf))
    ev = A_POOL[2] if evk == 0 else (B_POOL[2] if evk == 1 else C_POOL[2])
    expected = _expected(ea, eb, ec, order, split)
    bid = "join" if custom_id else "default"
    snap = _shared("j", bid, None if absent else buf)
    snap.collected_events["other"] = [C_POOL[0]]  # a second buffer of the same step: must be ignored
    got, rv = call_collect(snap, ev, list(expected), buffer_id=("join" if custom_id else None))

    # ---- independent oracle (multiset arithmetic on the symbolic counts)
    need = [max(0, ea - na), max(0, eb - nb), max(0, ec - nc)]
    total_need = need[0] + need[1] + need[2]
    need_ev = need[evk]
    completes_now = total_need == 1 and need_ev == 1
    if not absent and not same_ids(snap.collected_events.get(bid, []), buf):
        return False  # the snapshot handed to the step must not be mutated
    if completes_now:
        if got is None or len(got) != len(expected):
            return False
        for i in range(len(expected)):
            if type(got[i]) is not expected[i]:
                return False
            if not (got[i] is ev or ident_in(got[i], buf)):
                return False
            if ident_count(got[i], got) != 1:
                return False
        if not ident_in(ev, got):
            return False
        return len(rv) == 1 and isinstance(rv[0], DeleteCollectedEvent) and rv[0].event_id == bid
    if got is not None:
        return False
    if need_ev >= 1:
        return len(rv) == 1 and isinstance(rv[0], AddCollectedEvent) and rv[0].event_id == bid and rv[0].event is ev
    return len(rv) == 0


# ---------------------------------------------------------------------------------------------------------------
# reducer, one step from an arbitrary REP state

LIVE = [A_POOL[0], B_POOL[0]]      # events currently in the live buffer "buf"
OLD = [A_POOL[1], B_POOL[1]]       # events a snapshot may still hold after another invocation popped the buffer
X = C_POOL[2]                      # the event the ticking worker was started with
QEV = C_POOL[1]                    # queued events
EXC = ValueError("boom")


def _world_j(nw, b0, b1, b2, q, wid, live, snap, policy=None, oth=0, old_snap=False):
    """Step "j" (accepts EvA/EvB/EvC, ``nw`` workers).  Live buffer "buf" = LIVE[:live]; the ticking worker ``wid``
    saw LIVE[:snap] (snap <= live: the buffer grew since) or OLD[:snap] (snap > live: the buffer was popped since, and
    possibly refilled).  The other busy workers saw the current buffer.  A second buffer "other" is never touched by the
    tick; ``oth``: 0 = it is the same in the ticking worker's snapshot and live, 1 = it was completed and deleted since the
    snapshot (live: gone), 2 = it grew since the snapshot (live: two events)."""
    nw, q, wid, live, snap = conc(nw, 1, 3), conc(q, 0, 2), conc(wid, 0, 2), conc(live, 0, 2), conc(snap, 0, 2)
    b0, b1, b2 = concb(b0), concb(b1), concb(b2)
    cfg = step_config([EvA, EvB, EvC], nw, policy)
    livebuf = LIVE[:live]
    # old_snap: the ticking worker's snapshot is from an EARLIER round (that set was completed and deleted, the buffer refilled since)
    snapbuf = LIVE[:snap] if (snap <= live and not old_snap) else OLD[:snap]
    ips = []
    for i in busy_ids(3, (b0, b1, b2)):
        sb = snapbuf if i == wid else livebuf
        snapshot = {"other": [C_POOL[0]]}
        if len(sb) > 0:
            snapshot["buf"] = list(sb)
        ips.append(in_progress("j", X if i == wid else QEV, i, snapshot=snapshot))
    collected = {"other": [C_POOL[0]]}
    if oth == 1:
        collected = {}
    elif oth == 2:
        collected = {"other": [C_POOL[0], C_POOL[1]]}
    if live > 0:
        collected["buf"] = list(livebuf)
    ws = worker_state(cfg, [EventAttempt(event=QEV) for _ in range(q)], ips, collected, [])
    return broker({"j": ws})


def _valid_j(nw, b0, b1, b2, q, wid) -> bool:
    if not (1 <= nw <= 3) or (b1 and nw < 2) or (b2 and nw < 3):
        return False
    nb = (1 if b0 else 0) + (1 if b1 else 0) + (1 if b2 else 0)
    if q < 0 or (q > 0 and nb < nw):
        return False
    return 0 <= wid <= 2 and (b0 if wid == 0 else (b1 if wid == 1 else b2))


def _reruns(cmds, wid, ev):
    return [c for c in cmds if isinstance(c, CommandRunWorker) and c.step_name == "j" and c.id == wid and c.event is ev]


@obligation(quick=80, thorough=300, partitions_quick=["nw <= 2", "nw == 3"],
            partitions_thorough=[f"nw == {n} and live == {l}" for n in (1, 2, 3) for l in (0, 1, 2)],
            what="AddCollectedEvent: stale snapshot (live buffer longer than the snapshot) => nothing appended, the SAME "
                 "worker re-run with a refreshed snapshot; otherwise appended exactly once and the invocation committed",
            bounds={"num_workers": "1..3", "queue": "0..2", "live/snapshot length": "0..2 each (any relation; the snapshot a prefix of the live buffer or from an earlier, already completed round)", "second buffer": "unchanged / deleted since the snapshot / grown since"})
def ob_reducer_add(nw: int, b0: bool, b1: bool, b2: bool, q: int, wid: int, live: int, snap: int, oth: int = 0, old_snap: bool = False) -> bool:
    """
    pre: _valid_j(nw, b0, b1, b2, q, wid) and q <= QMAX
    pre: 0 <= live <= 2 and 0 <= snap <= 2 and 0 <= oth <= 2
    post: _
    """
    nw, q, wid, live, snap, oth = conc(nw, 1, 3), conc(q, 0, 2), conc(wid, 0, 2), conc(live, 0, 2), conc(snap, 0, 2), conc(oth, 0, 2)
    old_snap = concb(old_snap)
    st = _world_j(nw, b0, b1, b2, q, wid, live, snap, oth=oth, old_snap=old_snap)
    other_live = [] if oth == 1 else ([C_POOL[0], C_POOL[1]] if oth == 2 else [C_POOL[0]])
    res = [AddCollectedEvent(event_id="buf", event=X), StepWorkerResult(result=None)]
    tick = mk_step_result("j", wid, X, res)
    st2, cmds = _reduce_tick(tick, st, 1, "r")
    before = st.workers["j"].collected_events.get("buf", [])
    after = st2.workers["j"].collected_events.get("buf", [])
    if not same_ids(before, LIVE[:live]):
        return False  # reducer is pure: the pre-state is not mutated
    if not same_ids(st2.workers["j"].collected_events.get("other", []), other_live):
        return False  # a buffer the tick does not name is untouched ... and does not take part in the staleness decision
    if not (rep_R1(st2) and rep_R2(st2)):
        return False
    me = find_ip(st2, "j", wid)
    if live > snap:  # stale
        if not same_ids(after, LIVE[:live]):
            return False
        if me is None or me.event is not X:
            return False
        if not same_ids(me.shared_state.collected_events.get("buf", []), LIVE[:live]):
            return False
        if me.shared_state.collected_events.get("buf") is st2.workers["j"].collected_events.get("buf"):
            return False  # the refreshed snapshot must be a copy, not an alias of the live buffer
        if len(_reruns(cmds, wid, X)) != 1:
            return False
        return len(st2.workers["j"].queue) == q
    # fresh (or the buffer was popped since): appended exactly once, invocation committed
    if not same_ids(after, LIVE[:live] + [X]):
        return False
    if me is not None and me.event is X:
        return False
    return len(_reruns(cmds, wid, X)) == 0


@obligation(quick=80, thorough=300, partitions_quick=[f"pol == {p}" for p in (0, 1, 2, 3)],
            partitions_thorough=[f"pol == {p} and nw == {n}" for p in (0, 1, 2, 3) for n in (1, 2, 3)],
            what="an invocation that collected (snapshot fresh or stale) and then RAISED, or parked on a waiter: its input event is counted at "
                 "most once — occurrences of the event in the live buffer + stale-collect re-runs + queued retries + the parked invocation "
                 "that will run again <= 1 (a retry / replay calls collect_events again for the same event)",
            bounds={"num_workers": "1..3", "queue": "0..2", "live/snapshot length": "0..2 each",
                    "how it ended": "failed without retry / retry at once / retry after a delay / parked on wait_for_event"})
def ob_reducer_collect_then_failure(nw: int, b0: bool, b1: bool, b2: bool, q: int, wid: int, live: int, snap: int, pol: int) -> bool:
    """
    pre: _valid_j(nw, b0, b1, b2, q, wid) and q <= QMAX
    pre: 0 <= live <= 2 and 0 <= snap <= 2 and 0 <= pol <= 3
    post: _
    """
    nw, q, wid, live, snap, pol = conc(nw, 1, 3), conc(q, 0, 2), conc(wid, 0, 2), conc(live, 0, 2), conc(snap, 0, 2), conc(pol, 0, 3)
    st = _world_j(nw, b0, b1, b2, q, wid, live, snap, policy=StubPolicy(pol if pol <= 2 else 0))
    if pol <= 2:
        tail = StepWorkerFailed(exception=ValueError("x"), failed_at=1.0)
    else:
        tail = AddWaiter(waiter_id="w9", event_type=EvC, timeout=None)
    res = [AddCollectedEvent(event_id="buf", event=X), tail]
    st2, cmds = _reduce_tick(mk_step_result("j", wid, X, res), st, 1, "r")
    if not (rep_R1(st2) and rep_R2(st2)):
        return False
    retries = [c for c in cmds if isinstance(c, CommandQueueEvent) and c.event is X and c.step_name == "j"]
    reruns = _reruns(cmds, wid, X)
    in_buffer = ident_count(X, st2.workers["j"].collected_events.get("buf", []))
    me = find_ip(st2, "j", wid)
    # a parked invocation lives on as its waiter (the waiter keeps the input event and re-runs the step with it when it is resolved)
    parked = 1 if (pol == 3 and any(w.waiter_id == "w9" and w.event is X for w in st2.workers["j"].collected_waiters)) else 0
    if in_buffer + len(retries) + len(reruns) + parked > 1:
        return False          # X would be collected more than once
    if retries and me is not None and me.event is X:
        return False          # the failed invocation still occupies its slot while its retry is queued
    return True


@obligation(quick=80, thorough=300, partitions_quick=["outcome == 0", "outcome == 1", "outcome >= 2"],
            partitions_thorough=[f"outcome == {o} and nw == {n}" for o in range(4) for n in (1, 2, 3)],
            what="DeleteCollectedEvent pops the buffer only when the invocation completed (StepWorkerResult present), never "
                 "on a failed attempt; a completion whose snapshot events were already consumed by another invocation "
                 "is not committed",
            bounds={"num_workers": "1..3", "queue": "0..2", "outcome": "completed / failed+retry / failed final / waiting"})
def ob_reducer_delete(nw: int, b0: bool, b1: bool, b2: bool, q: int, wid: int, live: int, snap: int, outcome: int) -> bool:
    """
    pre: _valid_j(nw, b0, b1, b2, q, wid) and q <= QMAX
    pre: 0 <= live <= 2 and 0 <= snap <= 2 and 0 <= outcome <= 3
    pre: snap >= 1 and (snap == live or snap > live)
    post: _
    """
    # snap == live: the snapshot is current.  snap > live: another invocation popped the buffer since (consumed).
    nw, q, wid, live, snap, outcome = conc(nw, 1, 3), conc(q, 0, 2), conc(wid, 0, 2), conc(live, 0, 2), conc(snap, 0, 2), conc(outcome, 0, 3)
    consumed = snap > live
    st = _world_j(nw, b0, b1, b2, q, wid, live, snap, policy=StubPolicy(1 if outcome == 1 else 0))
    if outcome == 0:
        res = [DeleteCollectedEvent(event_id="buf"), StepWorkerResult(result=OUT)]
    elif outcome == 3:
        # collect_events returned the list, then the step went on to wait for an event: not completed yet
        from workflows.runtime.types.results import AddWaiter

        res = [DeleteCollectedEvent(event_id="buf"), AddWaiter(waiter_id="w", event_type=EvB, timeout=None)]
    else:
        res = [DeleteCollectedEvent(event_id="buf"), StepWorkerFailed(exception=EXC, failed_at=1.0)]
    tick = mk_step_result("j", wid, X, res)
    st2, cmds = _reduce_tick(tick, st, 1, "r")
    after = st2.workers["j"].collected_events.get("buf", None)
    if not same_ids(st2.workers["j"].collected_events.get("other", []), [C_POOL[0]]):
        return False
    queued_out = [c for c in cmds if isinstance(c, CommandQueueEvent) and c.event is OUT]
    if outcome != 0:
        # not completed: the buffer stays so that the retry / replay can grab the events again
        return after is not None and same_ids(after, LIVE[:live]) if live > 0 else (after is None or len(after) == 0)
    if consumed:
        # the list this invocation returned contains events another committed invocation already returned:
        # committing it (queueing its output, popping whatever is in the buffer now) counts them twice
        return len(queued_out) == 0 and (same_ids(after or [], LIVE[:live]))
    return after is None and len(queued_out) == 1


# ---------------------------------------------------------------------------------------------------------------
# composed, bounded: symbolic arrivals x worker limit x interleaving, real reducer + real collect_events in a loop

N_ARR = B(3, 4)      # arrivals (quick: 2..3; thorough: 1..4)
N_MIN = B(2, 1)
N_CHOICE = B(6, 8)   # symbolic scheduling decisions (taken only where >= 2 actions are enabled); then a fixed drain
NW_MAX = 3
ARR_A = [EvA(), EvA(), EvA(), EvA()]
ARR_B = [EvB(), EvB(), EvB(), EvB()]
ARR_C = [EvC(), EvC(), EvC(), EvC()]
OUTS = [Done(tag=0), Done(tag=1), Done(tag=2), Done(tag=3)]


def _choose(c: int, n: int) -> int:
    for k in range(n - 1):
        if c == k:
            return k
    return n - 1


def _run_composed(nw, n, types, choices, exk, incl_stale_commit):
    """-> (verdict bool).  ``types[i]`` in 0..2 = class of the i-th arrival; ``choices`` = scheduling decisions."""
    expected = [EvA, EvB] if exk == 0 else ([EvA, EvA, EvB] if exk == 1 else [EvA, EvB, EvC])
    arrivals = []
    for i in range(n):
        t = types[i]
        arrivals.append(ARR_A[i] if t == 0 else (ARR_B[i] if t == 1 else ARR_C[i]))
    st = broker({"j": worker_state(step_config([EvA, EvB, EvC], nw, None), [], [], {}, [])})
    lists, surplus = [], []
    nxt, ci, guard = 0, 0, 0
    while True:
        guard += 1
        if guard > 40:
            raise vlib.boot.HarnessError("composed run does not quiesce")
        ips = sorted(st.workers["j"].in_progress, key=lambda x: x.worker_id)
        can_deliver = nxt < n
        n_opts = (1 if can_deliver else 0) + len(ips)
        if n_opts == 0:
            break
        if n_opts == 1 or ci >= len(choices):
            k = 0  # drain: deliveries first, then lowest worker id
        else:
            k = _choose(choices[ci], n_opts)
            ci += 1
        if can_deliver and k == 0:
            tick = mk_add_event(arrivals[nxt])
            nxt += 1
            st, _ = _reduce_tick(tick, st, 1, "r")
            continue
        ip = ips[k - 1] if can_deliver else ips[k]
        snap_buf = ip.shared_state.collected_events.get("default", [])
        live_buf = st.workers["j"].collected_events.get("default", [])
        got, rv = call_collect(ip.shared_state, ip.event, list(expected))
        if got is not None and not same_ids(snap_buf, live_buf):
            # a list built from a snapshot that is no longer the live buffer (another invocation consumed it)
            if not incl_stale_commit:
                return True
        res = list(rv) + [StepWorkerResult(result=(OUTS[len(lists)] if got is not None else None))]
        tick = mk_step_result("j", ip.worker_id, ip.event, res)
        st, _ = _reduce_tick(tick, st, 1, "r")
        again = find_ip(st, "j", ip.worker_id)
        if again is not None and again.event is ip.event:
            continue  # discarded and re-run with a refreshed snapshot: not a committed invocation
        if got is not None:
            lists.append(got)
        elif len(rv) == 0:
            # declined as surplus: legitimate only if its snapshot already held the expected multiplicity of its type
            have = len([e for e in snap_buf if type(e) is type(ip.event)])
            want = len([t for t in expected if t is type(ip.event)])
            if have < want:
                return False
            surplus.append(ip.event)
    if st.workers["j"].queue or st.workers["j"].in_progress or nxt != n:
        return False
    final_buf = st.workers["j"].collected_events.get("default", [])
    for lst in lists:
        if len(lst) != len(expected):
            return False
        for i in range(len(expected)):
            if type(lst[i]) is not expected[i]:
                return False
    for a in arrivals:
        places = ident_count(a, final_buf) + ident_count(a, surplus)
        for lst in lists:
            places += ident_count(a, lst)
        if places != 1:  # 0 = lost, >= 2 = counted twice
            return False
    return True


@obligation(quick=180, thorough=900,
            partitions_quick=["nw == 1"] + [f"nw == {w} and t0 == {a} and t1 == {b}" for w in (2, 3) for a in (0, 1) for b in (0, 1)],
            partitions_thorough=[f"nw == {w} and t0 == {a} and t1 == {b} and exk == {x}" for w in (1, 2, 3) for a in (0, 1) for b in (0, 1) for x in (0, 1)],
            what="composed run (real reducer + real collect_events): every arrival ends in exactly one of {buffer, one "
                 "committed list, declined-as-surplus}; committed lists have the expected shape",
            bounds={"arrivals": "2..3 (quick) / 1..4 (thorough) over classes A,B", "num_workers": "1..NW_MAX", "expected": "[A,B] (quick) / +[A,A,B] (thorough)",
                    "schedule": "6 (quick) / 8 (thorough) symbolic decisions among {deliver next, complete worker i}, then a fixed drain"})
def ob_composed(nw: int, n: int, t0: int, t1: int, t2: int, t3: int, c0: int, c1: int, c2: int, c3: int, c4: int, c5: int,
                c6: int, c7: int, exk: int, incl_stale_commit: bool) -> bool:
    """
    pre: 1 <= nw <= NW_MAX and N_MIN <= n <= N_ARR and 0 <= exk <= B(0, 1)
    pre: 0 <= t0 <= 1 and 0 <= t1 <= 1 and 0 <= t2 <= 1 and 0 <= t3 <= 1
    pre: 0 <= c0 <= nw and 0 <= c1 <= nw and 0 <= c2 <= nw and 0 <= c3 <= nw and 0 <= c4 <= nw
    pre: 0 <= c5 <= nw and 0 <= c6 <= nw and 0 <= c7 <= nw
    pre: N_CHOICE >= 8 or (c6 == 0 and c7 == 0)
    pre: (n >= 4 or t3 == 0) and (n >= 3 or t2 == 0) and (n >= 2 or t1 == 0)
    pre: nw >= 2 or not incl_stale_commit
    post: _
    """
    nw, n, exk = conc(nw, 1, 3), conc(n, 1, 4), conc(exk, 0, 1)
    types = [conc(t0, 0, 1), conc(t1, 0, 1), conc(t2, 0, 1), conc(t3, 0, 1)]
    choices = [c0, c1, c2, c3, c4, c5, c6, c7][:N_CHOICE]
    return _run_composed(nw, n, types, choices, exk, concb(incl_stale_commit))
