"""C36 — idle runs are released after the idle timeout and reloaded on demand (both server stacks).

In-process stack: the REAL ServerRuntimeDecorator( IdleReleaseDecorator( PersistenceDecorator( BasicRuntime ))) over a
MemoryWorkflowStore, fronted by the REAL _WorkflowService (start_workflow / send_event), exactly as WorkflowServer
assembles it, runs a small human-in-the-loop workflow on MiniLoop (virtual time).  The idle timeout T and the idle
durations d1, d2 before the two external events are symbolic; so is the order in which an event and the release timer
of the same instant fire.  A sampler looks at the run at every half-integer instant.

DBOS stack: the REAL DBOSIdleReleaseDecorator + EventInterceptorDecorator + TickPersistenceDecorator +
ServerRuntimeDecorator + the REAL SqliteRunLifecycleLock on a temporary sqlite file whose tables come from the package's
own migration SQL; only DBOSRuntime itself (dbos / sqlalchemy / asyncpg are not installed) is replaced by an
environment stub (BasicRuntime).  `precreate` says whether the lifecycle row of the run exists: False is production
(nothing under llama_agents/dbos ever calls RunLifecycleLock.create), True is what the package's unit tests set up by
hand.
"""
from __future__ import annotations

import vlib.boot  # noqa: F401
from vlib.boot import B
from vlib.ob import obligation

from typing import Any, Dict, List, Optional

from vlib import h_idle
from vlib.h_idle import concrete, run_stack

from workflows import Context, Workflow, step
from workflows.events import HumanResponseEvent, StartEvent, StopEvent

h_idle.install_speedups()
h_idle.ensure_dbos_importable()

ENCODED = [
    "llama_agents.server._runtime.idle_release_runtime:IdleReleaseDecorator",
    "llama_agents.server._runtime.idle_release_runtime:IdleReleaseExternalRunAdapter",
    "llama_agents.server._runtime.idle_release_runtime:_IdleReleaseInternalRunAdapter",
    "llama_agents.server._runtime.persistence_runtime:TickPersistenceDecorator.context_from_ticks",
    "llama_agents.server._runtime.persistence_runtime:_PersistenceInternalRunAdapter",
    "llama_agents.server._runtime.server_runtime:_ServerInternalRunAdapter.write_to_event_stream",
    "llama_agents.server._runtime.event_interceptor:EventInterceptorDecorator",
    "llama_agents.server._service:_WorkflowService.send_event",
    "llama_agents.server._service:_WorkflowService.start_workflow",
    "llama_agents.server._store.abstract_workflow_store:AbstractWorkflowStore.update_handler_status",
    "llama_agents.dbos.idle_release:DBOSIdleReleaseDecorator",
    "llama_agents.dbos.idle_release:DBOSIdleReleaseExternalRunAdapter",
    "llama_agents.dbos.idle_release:_DBOSIdleReleaseInternalRunAdapter",
    "llama_agents.dbos.journal.lifecycle:SqliteRunLifecycleLock",
    "workflows.plugins.basic:BasicRuntime.run_workflow",
    "workflows.plugins.basic:ExternalAsyncioAdapter.abort",
    "workflows.runtime.control_loop:_ControlLoopRunner.run",
    "workflows.runtime.control_loop:_reduce_tick",
    "workflows.runtime.control_loop:_check_idle_state",
    "workflows.runtime.control_loop:replay_ticks_stream",
]
ASSUMES = [
    "asyncio scheduling = vlib.miniloop.MiniLoop (FIFO ready queue, virtual clock, equal deadlines fire in registration "
    "order); every clock read on the path (time.* / datetime.now in basic.py, control_loop.py, step_function.py, "
    "idle_release_runtime.py, server_runtime.py, _service.py, the stores, dbos/idle_release.py, dbos/journal/lifecycle.py) "
    "is patched to that virtual clock; run / span ids are fixed strings",
    "instants are integers (virtual seconds), step bodies take no virtual time; the symbolic small ints are enumerated "
    "by the solver (vlib.h_idle.concrete forks on every value in the stated range), so every order of {release timer, "
    "event arrival} including both tie orders (flag `early`) is explored",
    "BasicRuntime is the observing subclass of vlib.h_idle (records the control-loop task of every (re)start per run id; "
    "forwards every call unchanged)",
    "workflow timeout=None and wait_for_event(timeout=None): timers pending at release are property C14, not this one",
    "ob_inproc_reload_slow_store: the store is vlib.h_idle.make_slow_store, an ENVIRONMENT STUB for a store with I/O latency: "
    "MemoryWorkflowStore in which ONE update_handler_status call, chosen by the solver, takes 1..LATMAX virtual seconds and takes "
    "effect before or after that wait; release instants then depend on the latency, so only the latency-independent part of the "
    "statement is asserted there (the run continues from where it stopped)",
    "tooling: logging disabled; under CrossHair repr() of concrete scalars is native and "
    "workflows.utils.get_steps_from_instance/_class run untraced (vlib.h_idle.install_speedups) — no effect on results",
    "DBOS stack: DBOSRuntime is replaced by an ENVIRONMENT STUB (BasicRuntime; a finished run's id becomes reusable on "
    "restart = DBOS.delete_workflow_async); the name DBOS inside dbos/idle_release.py raises RuntimeError, which "
    "_do_resume handles in its existing try/except blocks; the workflow store is MemoryWorkflowStore; the stub is "
    "faithful for the lifecycle table because the real runtime.py only builds the lock factory (checked by AST every "
    "run: DBOS_RUNTIME_TOUCHES_LIFECYCLE must be False, otherwise the DBOS obligations are not runnable)",
    "precreate=True = the lifecycle row is inserted through the real lock.create(run_id) right after start_workflow "
    "(what the package's own unit tests do by hand); precreate=False = production as it is",
]
OUTSIDE = [
    "the real DBOS engine: workflow hand-over between replicas, DBOS.send/recv, DBOS recovery, journal purge; "
    "PostgresRunLifecycleLock (asyncpg)",
    "idle_timeout / durations beyond the stated ranges, more than two external events, non-integer instants",
    "timers pending at release (C14), concurrent senders / resumers and releaser crashes (C26), server restart",
]

TMAX = B(3, 5)     # idle_timeout 1..TMAX
SLACK = B(1, 2)    # idle durations 0..T+SLACK

DBOS_RUNTIME_TOUCHES_LIFECYCLE = h_idle.dbos_runtime_touches_lifecycle()
DBOS_CREATE_CALLERS = h_idle.dbos_lifecycle_create_callers()  # evidence only: who could insert the row


class ExtEv(HumanResponseEvent):
    n: int


class CollectWF(Workflow):
    """begin stores a value and returns; on_ext buffers two external events (engine-side collect buffer) and finishes
    with a result that depends on the stored value, on both payloads and on their order."""

    def __init__(self, **kw: Any) -> None:
        super().__init__(**kw)
        self.calls: List[str] = []

    @step
    async def begin(self, ctx: Context, ev: StartEvent) -> None:
        self.calls.append("begin")
        await ctx.store.set("base", 5)
        return None

    @step
    async def on_ext(self, ctx: Context, ev: ExtEv) -> Optional[StopEvent]:
        self.calls.append("on_ext")
        got = ctx.collect_events(ev, [ExtEv, ExtEv])
        if got is None:
            return None
        base = await ctx.store.get("base")
        return StopEvent(result=base * 10000 + got[0].n * 100 + got[1].n)


class WaitWF(Workflow):
    """the human-in-the-loop shape: one step that waits twice for an external event (waiter state lives in the engine's
    broker state and must survive release + reload)."""

    def __init__(self, **kw: Any) -> None:
        super().__init__(**kw)
        self.calls: List[str] = []

    @step
    async def begin(self, ctx: Context, ev: StartEvent) -> StopEvent:
        self.calls.append("begin")
        await ctx.store.set("base", 5)
        a = await ctx.wait_for_event(ExtEv, waiter_id="first", timeout=None)
        self.calls.append("got1")
        b = await ctx.wait_for_event(ExtEv, waiter_id="second", timeout=None)
        self.calls.append("got2")
        base = await ctx.store.get("base")
        return StopEvent(result=base * 10000 + a.n * 100 + b.n)


_WF = [CollectWF, WaitWF]
P1, P2 = 11, 7


def _make(wk: int) -> Any:
    return lambda: _WF[wk](timeout=None)


def _mk_event(n: int) -> ExtEv:
    return ExtEv(n=n)


# what the two workflows compute when nothing interferes (used only if the reference run itself breaks on this tree)
_ANALYTIC = [
    {"result": 5 * 10000 + P1 * 100 + P2, "calls": ["begin", "on_ext", "on_ext"]},
    {"result": 5 * 10000 + P1 * 100 + P2, "calls": ["begin", "begin", "got1", "begin", "got1", "got2"]},
]


def _reference(kind: str, wk: int) -> Dict[str, Any]:
    """The uninterrupted run: same stack, same workflow, same events, an idle timeout that never expires."""
    try:
        o = run_stack(kind, 10 ** 6, [(1, P1), (2, P2)], _make(wk), _mk_event, early=True, probe_to=0, precreate=True)
        if o["status"] == "completed" and o["loops"] == 1 and not o["errors"]:
            return {"result": o["result"], "calls": list(o["workflow"].calls)}
    except Exception:  # noqa: BLE001 - a tree on which even the uninterrupted run breaks: judge against the analytic value
        pass
    return dict(_ANALYTIC[wk])


# computed natively at import (before CrossHair starts tracing); also warms every lazy import / pydantic schema
REF = {(k, w): _reference(k, w) for k in ("inproc", "dbos") for w in (0, 1)}


def _why(o: Dict[str, Any], kind: str, T: int, ref: Dict[str, Any], expect_release: bool = True) -> List[str]:
    """All the reasons the observation record violates C36 (empty list = holds)."""
    bad: List[str] = []

    def released(s: Dict[str, Any]) -> bool:
        if kind == "inproc":
            return s["live"] == 0 and not s["queued"] and s["lifecycle"] is True
        return s["live"] == 0 and s["lifecycle"] == "released"

    def not_released(s: Dict[str, Any]) -> bool:
        if kind == "inproc":
            return s["live"] == 1 and s["queued"] and s["lifecycle"] is False
        return s["live"] == 1 and s["lifecycle"] in ("active", None)

    pre = sorted(o["pre_send"], key=lambda r: r["i"])
    post = sorted(o["post_send"], key=lambda r: r["i"])
    if o["errors"] or o["loop_exceptions"]:
        bad.append(f"errors {o['errors']} {o['loop_exceptions']}")
    if len(pre) != 2 or len(post) != 2:
        return bad + ["a send did not return"]
    # idle periods: from an idle announcement (WorkflowIdleEvent) to the next event sent after it
    send_at = sorted(p["at"] for p in pre)
    periods = []
    for a in o["idle_at"]:
        later = [b for b in send_at if b > a]
        periods.append((a, later[0] if later else None))
    if not periods or periods[0][0] != 0.0:
        bad.append(f"run never announced idle at t=0: {o['idle_at']}")
    first_at = [p for k, p in enumerate(pre) if all(q["at"] != p["at"] for q in pre[:k])]  # not behind another send
    for s in list(o["samples"]) + first_at:
        # the idle period this observation falls into: the latest announcement strictly before it
        mine = [(a, b) for (a, b) in periods if a < s["at"] and (b is None or s["at"] <= b)]
        if not mine or any(a < b2 < s["at"] for b2 in send_at for (a, _b) in mine[-1:]):
            continue
        a, b = mine[-1]
        if s["at"] == b and s not in pre:
            continue  # a sample never coincides with a send (half-integers), but stay safe
        elapsed = s["at"] - a
        if elapsed > T:
            # idle for longer than idle_timeout: released from memory, handler marked idle, still "running"
            if not released(s):
                bad.append(f"t={s['at']}: idle for {elapsed} > T={T} but not released: {s}")
            elif s["status"] != "running" or s["idle_since"] is None:
                bad.append(f"t={s['at']}: released but handler not marked idle/running: {s}")
        elif elapsed < T:
            if not not_released(s):
                bad.append(f"t={s['at']}: idle for only {elapsed} < T={T} but already released: {s}")
    # the next event transparently reloads the run
    for p, q in zip(pre, post):
        if q["status"] == "running" and q["live"] != 1:
            bad.append(f"after send {p['i']}: no live control loop: {q}")
        grew = q["loops"] - p["loops"]
        if p["live"] == 0 and grew != 1:
            bad.append(f"send {p['i']} to a released run started {grew} control loops")
        if grew not in (0, 1):
            bad.append(f"send {p['i']} started {grew} control loops")
    # ... which continues from where it stopped: it completes with the result and the step executions of the
    # uninterrupted run (the handler was seen "completed" with that result once both events were in)
    done_seen = any(r["status"] == "completed" for r in post + [o["final"]])
    if not done_seen or o["result"] != ref["result"]:
        bad.append(f"run did not complete like the uninterrupted one: final {o['status']}/{o['result']} vs "
                   f"completed/{ref['result']}")
    if list(o["workflow"].calls) != ref["calls"]:
        bad.append(f"step executions {o['workflow'].calls} != uninterrupted {ref['calls']}")
    return bad


def _debug(tag: str, bad: List[str]) -> None:
    import os

    if bad and os.environ.get("VERIF_DEBUG"):
        import sys

        sys.stderr.write(f"[{tag}] " + "\n    ".join(bad) + "\n")


@obligation(quick=240, thorough=880,
            partitions_quick=[f"wk == {w} and early == {e}" for w in (0, 1) for e in (True, False)],
            partitions_thorough=[f"wk == {w} and early == {e} and T == {t}" for w in (0, 1) for e in (True, False)
                                 for t in (1, 2, 3, 4, 5)],
            what="in-process stack: idle longer than T => control loop gone, run dropped from the runtime, handler "
                 "idle_since set, status running; idle shorter than T => still live; the next send_event reloads the "
                 "run (exactly one new control loop) and it finishes with the result and step executions of the "
                 "uninterrupted run; two idle periods, both tie orders, collect-buffer and waiter workflows",
            bounds={"idle_timeout T": "1..TMAX", "idle durations d1,d2": "0..T+SLACK", "events": 2,
                    "workflow kinds": 2, "tie order": "both"})
def ob_inproc_release_reload(wk: int, T: int, d1: int, d2: int, early: bool) -> bool:
    """
    pre: 0 <= wk <= 1 and 1 <= T <= TMAX
    pre: 0 <= d1 <= T + SLACK and 0 <= d2 <= T + SLACK
    post: _
    """
    wk = concrete(wk, 0, 1)
    T = concrete(T, 1, TMAX)
    d1 = concrete(d1, 0, TMAX + SLACK)
    d2 = concrete(d2, 0, TMAX + SLACK)
    early = bool(early)
    o = run_stack("inproc", T, [(d1, P1), (d1 + d2, P2)], _make(wk), _mk_event, early=early, probe_to=d1 + d2,
                  settle=0)
    bad = _why(o, "inproc", T, REF[("inproc", wk)])
    _debug(f"inproc wk={wk} T={T} d1={d1} d2={d2} early={early}", bad)
    return not bad


KSLOW = 8          # status writes of one scenario are numbered 0..; k beyond the last one = no slow write
LATMAX = B(2, 3)
TSLOW = 2


def _why_slow(o: Dict[str, Any], ref: Dict[str, Any]) -> List[str]:
    """The latency-independent part of C36: whatever was released and reloaded, the run continues from where it stopped."""
    bad: List[str] = []
    if o["errors"] or o["loop_exceptions"]:
        bad.append(f"errors {o['errors']} {o['loop_exceptions']}")
    pre = sorted(o["pre_send"], key=lambda r: r["i"])
    post = sorted(o["post_send"], key=lambda r: r["i"])
    if len(pre) != 2 or len(post) != 2:
        return bad + ["a send did not return"]
    for p, q in zip(pre, post):
        grew = q["loops"] - p["loops"]
        if grew not in (0, 1):
            bad.append(f"send {p['i']} started {grew} control loops")
    if o["status"] != "completed" or o["result"] != ref["result"]:
        bad.append(f"run did not complete like the uninterrupted one: final {o['status']}/{o['result']} vs completed/{ref['result']}")
    if list(o["workflow"].calls) != ref["calls"]:
        bad.append(f"step executions {o['workflow'].calls} != uninterrupted {ref['calls']}")
    if o["live_at_end"] != 0 or o["overlap"]:
        bad.append(f"control loops: live at end {o['live_at_end']}, overlap {o['overlap']}")
    return bad


@obligation(quick=400, thorough=880,
            partitions_quick=[f"k == {k} and land_first == {lf}" for k in range(KSLOW) for lf in (True, False)],
            partitions_thorough=[f"k == {k} and land_first == {lf} and wk == {w}" for k in range(KSLOW) for lf in (True, False)
                                 for w in (0, 1)],
            what="in-process stack over a store with I/O latency (environment stub: the k-th update_handler_status call of the "
                 "scenario takes lat virtual seconds and lands before or after the wait): whatever gets released and reloaded "
                 "around the two events, the run finishes with the result and step executions of the uninterrupted run, no "
                 "send starts more than one control loop, none is left at the end",
            bounds={"idle_timeout T": "1..TSLOW", "idle durations d1,d2": "0..T+1", "slow write index k": "0..KSLOW-1",
                    "latency": "1..LATMAX", "lands": "before / after the wait", "workflow kinds": 2, "tie order": "both"})
def ob_inproc_reload_slow_store(wk: int, T: int, d1: int, d2: int, k: int, lat: int, land_first: bool, early: bool) -> bool:
    """
    pre: 0 <= wk <= 1 and 1 <= T <= TSLOW and 0 <= d1 <= T + 1 and 0 <= d2 <= T + 1
    pre: 0 <= k < KSLOW and 1 <= lat <= LATMAX
    post: _
    """
    wk = concrete(wk, 0, 1)
    T = concrete(T, 1, TSLOW)
    d1 = concrete(d1, 0, TSLOW + 1)
    d2 = concrete(d2, 0, TSLOW + 1)
    k = concrete(k, 0, KSLOW - 1)
    lat = concrete(lat, 1, LATMAX)
    land_first = bool(land_first)
    early = bool(early)
    o = run_stack("inproc", T, [(d1, P1), (d1 + d2, P2)], _make(wk), _mk_event, early=early, probe_to=0,
                  settle=T + lat + 1, slow_write=(k, lat, land_first))
    bad = _why_slow(o, REF[("inproc", wk)])
    _debug(f"slow wk={wk} T={T} d1={d1} d2={d2} k={k} lat={lat} land_first={land_first} early={early} hit={o['slow_hit']}", bad)
    return not bad


@obligation(quick=400, thorough=880,
            partitions_quick=[f"k == {k} and land_first == {lf}" for k in range(KSLOW) for lf in (True, False)],
            partitions_thorough=[f"k == {k} and land_first == {lf} and T == {t}" for k in range(KSLOW) for lf in (True, False) for t in (1, 2)],
            what="in-process stack over a store with I/O latency (one slow update_handler_status, as above), ONE event sent to the idle run before "
                 "its release, after which the run waits again and nobody sends anything more: once everything has settled (idle_timeout + "
                 "latency + slack after the event) the run IS released — no live control loop, dropped from the runtime, handler marked idle, "
                 "status running — whatever the slow write was",
            bounds={"idle_timeout T": "1..TSLOW", "event instant d1": "0..T (before the release)", "slow write index k": "0..KSLOW-1",
                    "latency": "1..LATMAX", "lands": "before / after the wait", "workflow kinds": 2})
def ob_inproc_idle_again_is_released_slow_store(wk: int, T: int, d1: int, k: int, lat: int, land_first: bool) -> bool:
    """
    pre: 0 <= wk <= 1 and 1 <= T <= TSLOW and 0 <= d1 <= T
    pre: 0 <= k < KSLOW and 1 <= lat <= LATMAX
    post: _
    """
    wk = concrete(wk, 0, 1)
    T = concrete(T, 1, TSLOW)
    d1 = concrete(d1, 0, TSLOW)
    k = concrete(k, 0, KSLOW - 1)
    lat = concrete(lat, 1, LATMAX)
    land_first = bool(land_first)
    o = run_stack("inproc", T, [(d1, P1)], _make(wk), _mk_event, early=True, probe_to=0, settle=2 * T + 2 * lat + 3, horizon=0,
                  slow_write=(k, lat, land_first))
    bad: List[str] = []
    if o["errors"] or o["loop_exceptions"]:
        bad.append(f"errors {o['errors']} {o['loop_exceptions']}")
    f = o["final"]
    if f["status"] != "running":
        bad.append(f"handler status {f['status']} (the run waits for a second event)")
    elif not (f["live"] == 0 and f["lifecycle"] is True and f["idle_since"] is not None):
        bad.append(f"idle for good but not released / not marked idle at t={f['at']}: {f}")
    _debug(f"idle-again wk={wk} T={T} d1={d1} k={k} lat={lat} land_first={land_first} hit={o['slow_hit']}", bad)
    return not bad


@obligation(quick=240, thorough=880,
            partitions_quick=[f"precreate == {p} and wk == {w} and early == {e}" for p in (False, True) for w in (0, 1)
                              for e in (True, False)],
            partitions_thorough=[f"precreate == {p} and wk == {w} and early == {e} and T == {t}" for p in (False, True)
                                 for w in (0, 1) for e in (True, False) for t in (1, 2, 3, 4, 5)],
            what="DBOS stack (real decorators + real sqlite lifecycle lock over a stub inner runtime): idle longer than "
                 "T => TickIdleRelease delivered, control loop gone, lifecycle row 'released', handler idle_since set, "
                 "status running; shorter => still live; the next send_event resumes the run (one new control loop) "
                 "and it finishes like the uninterrupted run",
            bounds={"idle_timeout T": "1..TMAX", "idle durations d1,d2": "0..T+SLACK", "events": 2,
                    "workflow kinds": 2, "tie order": "both",
                    "precreate": "False (production) and True"})
def ob_dbos_release_reload(wk: int, T: int, d1: int, d2: int, early: bool, precreate: bool) -> bool:
    """
    pre: not DBOS_RUNTIME_TOUCHES_LIFECYCLE
    pre: 0 <= wk <= 1 and 1 <= T <= TMAX
    pre: 0 <= d1 <= T + SLACK and 0 <= d2 <= T + SLACK
    post: _
    """
    wk = concrete(wk, 0, 1)
    T = concrete(T, 1, TMAX)
    d1 = concrete(d1, 0, TMAX + SLACK)
    d2 = concrete(d2, 0, TMAX + SLACK)
    early = bool(early)
    precreate = bool(precreate)
    o = run_stack("dbos", T, [(d1, P1), (d1 + d2, P2)], _make(wk), _mk_event, early=early, probe_to=d1 + d2,
                  precreate=precreate, settle=0)
    bad = _why(o, "dbos", T, REF[("dbos", wk)])
    _debug(f"dbos wk={wk} T={T} d1={d1} d2={d2} early={early} precreate={precreate}", bad)
    return not bad


@obligation(quick=400, thorough=880,
            partitions_quick=[f"lat == {l} and d2 == {d}" for l in (1, 2) for d in (0, 1, 2)],
            partitions_thorough=[f"lat == {l} and d2 == {d} and T == {t} and wk == {w}" for l in (1, 2) for d in (0, 1, 2) for t in (1, 2) for w in (0, 1)],
            what="in-process stack over a store whose handler look-ups by run id answer lat seconds late (environment stub; so the release timer, "
                 "a sender's reload and every status write HOLD the run's reload lock across real waits): two events sent in quick succession "
                 "around the moment the release timer fires — a holder, a queued sender and a late-comer on the same run's lock — the run "
                 "finishes with the result and step executions of the uninterrupted run (the second event never overtakes the first), no send "
                 "starts more than one control loop, none is left at the end",
            bounds={"idle_timeout T": "1..2", "look-up latency": "1..2", "first event at": "0..T+3*lat", "second event": "0..2 later", "workflow kinds": 2})
def ob_inproc_two_sends_slow_lookups(wk: int, T: int, lat: int, a1: int, d2: int, early: bool) -> bool:
    """
    pre: 0 <= wk <= 1 and 1 <= T <= 2 and 1 <= lat <= 2 and 0 <= a1 <= T + 3 * lat and 0 <= d2 <= 2
    post: _
    """
    wk, T, lat = concrete(wk, 0, 1), concrete(T, 1, 2), concrete(lat, 1, 2)
    a1, d2 = concrete(a1, 0, 8), concrete(d2, 0, 2)
    early = bool(early)
    o = run_stack("inproc", T, [(a1, P1), (a1 + d2, P2)], _make(wk), _mk_event, early=early, probe_to=0,
                  settle=T + 6 * lat + 2, slow_write=(-1, lat, True))
    bad = _why_slow(o, REF[("inproc", wk)])
    _debug(f"slow lookups wk={wk} T={T} lat={lat} a1={a1} d2={d2} early={early}", bad)
    return not bad


# ----------------------------------------------------------------------------------------------- idle AFTER a retry waited out its delay
class _OneDelay:
    """user retry policy (environment): the first failure is retried after `delay` seconds"""

    delay: float = 1.0

    def next(self, elapsed_time: float, attempts: int, error: Exception) -> Optional[float]:
        return float(self.delay) if attempts <= 1 else None


_RETRY_POLICY36 = _OneDelay()


class RetryThenWaitWF(Workflow):
    """the step fails once, is retried after x seconds (while that retry sits in the timer heap the run must NOT be announced idle), and then
    waits for an external event for good: from then on the run IS idle"""

    def __init__(self, **kw: Any) -> None:
        super().__init__(**kw)
        self.calls: List[str] = []

    @step(retry_policy=_RETRY_POLICY36)
    async def begin(self, ctx: Context, ev: StartEvent) -> StopEvent:
        self.calls.append("begin")
        if self.calls.count("begin") == 1:
            raise RuntimeError("first attempt fails")
        a = await ctx.wait_for_event(ExtEv, waiter_id="q", timeout=None)
        return StopEvent(result=a.n)


@obligation(quick=240, thorough=600, partitions_quick=[f"T == {t}" for t in (1, 2)], partitions_thorough=[f"T == {t} and x == {x}" for t in (1, 2, 3) for x in (1, 2, 3)],
            what="in-process stack: a run whose step failed, waited out a retry delay x (not idle meanwhile) and then parks in wait_for_event for "
                 "good: idle_timeout after it parked it IS released — no live control loop, handler marked idle, status still running — and an "
                 "event sent afterwards (send == 1) reloads it and completes it",
            bounds={"idle_timeout T": "1..2 (thorough 3)", "retry delay x": "1..3", "event after the release": "none / one"})
def ob_inproc_idle_after_a_retry_is_released(T: int, x: int, send: int) -> bool:
    """
    pre: 1 <= T <= TRW36 and 1 <= x <= 3 and 0 <= send <= 1
    post: _
    """
    T, x, send = concrete(T, 1, 3), concrete(x, 1, 3), concrete(send, 0, 1)
    _RETRY_POLICY36.delay = x
    at = x + T + 3
    o = run_stack("inproc", T, ([(at, 9)] if send else []), lambda: RetryThenWaitWF(timeout=None), _mk_event, early=True, probe_to=0,
                  settle=(2 if send else x + T + 3), horizon=0)
    bad: List[str] = []
    if o["errors"] or o["loop_exceptions"]:
        bad.append(f"errors {o['errors']} {o['loop_exceptions']}")
    if send:
        if o["final"]["status"] != "completed" or o["result"] != 9:
            bad.append(f"after the event: {o['final']['status']}/{o['result']}, wanted completed/9")
        # just before the event (x + T + 2.5) the run had been released
        last = o["pre_send"][0] if o["pre_send"] else None     # the run's condition just before the event was sent
        if last is None or not (last["live"] == 0 and last["idle_since"] is not None):
            bad.append(f"not released before the event arrived: {last}")
    else:
        f = o["final"]
        if f["status"] != "running":
            bad.append(f"handler status {f['status']} (the run waits for an event)")
        elif not (f["live"] == 0 and f["idle_since"] is not None):
            bad.append(f"idle for good but not released / not marked idle at t={f['at']}: {f}")
    _debug(f"idle after retry T={T} x={x} send={send}", bad)
    return not bad


TRW36 = B(2, 3)
