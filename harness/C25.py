"""C25 - KeyedLock: per-key mutual exclusion, independence of keys, every waiter enters, no residue.

The REAL ``KeyedLock`` runs on ``vlib.h_async.SymLoop`` (real asyncio Task/Lock, virtual integer clock).  Each
user task i: sleeps until its symbolic start instant s_i, does ``async with locks(key_i)``, holds for the symbolic
duration h_i, leaves.  Optionally a cancellation is delivered to it at the symbolic instant x_i - so, over all
solver-explored orderings of the instants (ties included), the CancelledError lands before registration, while
queued on the per-key lock, at the hand-over (lock released to it, not yet resumed), while holding, or after
completion."""
from __future__ import annotations

import vlib.boot  # noqa: F401
from vlib.boot import B
from vlib.ob import obligation

import asyncio

from vlib.h_async import SymLoop, cancel_at, reraise_foreign

from llama_agents.server._keyed_lock import KeyedLock

ENCODED = [
    "llama_agents.server._keyed_lock:KeyedLock.__call__",
    "llama_agents.server._keyed_lock:KeyedLock._get_main_lock",
    "llama_agents.server._keyed_lock:KeyedLock.__init__",
]
ASSUMES = [
    "event loop = vlib.h_async.SymLoop: FIFO ready queue, virtual integer clock, timers due at the same instant fire "
    "in the same iteration in scheduling order (asyncio's _run_once discipline); real asyncio.Task / Lock / sleep / gather",
    "nondeterminism = symbolic instants (start, hold, cancellation) - every ordering incl. ties is decided by z3",
    "cancellation = Task.cancel() delivered by an environment task at a symbolic instant (at most one per user); in ob_cancel_at_handover "
    "also a symbolic number of loop iterations into that instant",
    "'free key' = no user is between requesting the key and having left it (harness-side bookkeeping)",
]
OUTSIDE = [
    "more than 3 users / 2 keys, instants beyond the stated bounds, repeated cancellation of the same task",
    "non-asyncio threads; loops with a different ready-queue discipline",
]

TMAX = B(2, 3)  # start / hold bounds
XMAX = B(4, 6)  # cancellation instant bound


def _scenario(keys, starts, holds, cancels, xs, yields=None, cyields=None) -> bool:
    n = len(keys)
    loop = SymLoop()
    ok = [True]
    entered = [False] * n
    inside = {}
    want = {}

    async def main():
        kl = KeyedLock()

        async def user(i: int, key: str, s, h):
            await asyncio.sleep(s)
            for _ in range(yields[i] if yields else 0):
                await asyncio.sleep(0)    # arrive a few loop iterations later WITHIN the same instant (e.g. right after a release there)
            free = want.get(key, 0) == 0
            t_req = loop.time()
            want[key] = want.get(key, 0) + 1
            try:
                async with kl(key):
                    entered[i] = True
                    inside[key] = inside.get(key, 0) + 1
                    if inside[key] > 1:
                        ok[0] = False  # two holders of one key
                    if free and loop.time() != t_req:
                        ok[0] = False  # had to wait although nobody held / wanted this key
                    try:
                        await asyncio.sleep(h)
                    finally:
                        inside[key] -= 1
            finally:
                want[key] -= 1

        ts = [asyncio.ensure_future(user(i, "b" if keys[i] else "a", starts[i], holds[i])) for i in range(n)]
        async def cancel_late(task, when, extra):
            await asyncio.sleep(when)
            for _ in range(extra):
                await asyncio.sleep(0)    # deliver the cancellation a few loop iterations INTO the instant (after a release made there)
            if not task.done():
                task.cancel()

        cs = [asyncio.ensure_future(cancel_late(ts[i], xs[i], cyields[i]) if cyields else cancel_at(ts[i], xs[i])) for i in range(n) if cancels[i]]
        res = await asyncio.gather(*ts, return_exceptions=True)
        reraise_foreign(res)
        for r in res:
            if isinstance(r, Exception):
                raise r
        for i in range(n):
            if isinstance(res[i], asyncio.CancelledError) and not cancels[i]:
                ok[0] = False
            if not cancels[i] and not entered[i]:
                ok[0] = False  # a non-cancelled waiter never entered
        for c in cs:
            c.cancel()
        await asyncio.gather(*cs, return_exceptions=True)
        if len(kl._locks) != 0 or len(kl._refs) != 0:
            ok[0] = False  # residue
        ml = kl._main_lock
        if ml is not None and ml.locked():
            ok[0] = False

    loop.run_until_complete(main())
    return ok[0]


_P2 = [f"c0 == {a} and c1 == {b} and k1 == {k}" for a in (False, True) for b in (False, True) for k in (False, True)]


@obligation(quick=80, thorough=400,
            partitions_quick=_P2, partitions_thorough=_P2,
            what="2 users, keys symbolic, start/hold/cancel instants symbolic: exclusion, independence, liveness, no residue",
            bounds={"users": 2, "keys": 2, "start,hold": "0..TMAX", "cancel instant": "0..XMAX"})
def ob_two_users(k1: bool, s0: int, s1: int, h0: int, h1: int, c0: bool, c1: bool, x0: int, x1: int) -> bool:
    """
    pre: 0 <= s0 <= TMAX and 0 <= s1 <= TMAX and 0 <= h0 <= TMAX and 0 <= h1 <= TMAX
    pre: 0 <= x0 <= XMAX and 0 <= x1 <= XMAX
    pre: (c0 or x0 == 0) and (c1 or x1 == 0)
    post: _
    """
    return _scenario([False, k1], [s0, s1], [h0, h1], [c0, c1], [x0, x1])


S3 = B(1, 1)
H3 = B(2, 2)
X3 = B(3, 4)
_P3Q = [f"k2 == {b} and c1 == {c}" for b in (False, True) for c in (False, True)]
_P3T = [f"k1 == {a} and k2 == {b} and c1 == {c} and c2 == {d}" + e
        for a in (False, True) for b in (False, True) for c in (False, True) for d in (False, True)
        for e in ([" and x1 <= 1", " and x1 == 2", " and x1 >= 3"] if (c and d) else [""])]


@obligation(quick=80, thorough=None, partitions_quick=_P3Q,
            what="3 users, user 1 queued behind user 0 on the same key and cancellable (hand-over past a cancelled waiter), user 2 on a symbolic key",
            bounds={"users": 3, "keys": 2, "start": "0..S3", "hold": "0..H3", "cancel instant": "0..X3"})
def ob_three_users_q(k2: bool, s0: int, s1: int, s2: int, h0: int, h1: int, h2: int, c1: bool, x1: int) -> bool:
    """
    pre: 0 <= s0 <= S3 and 0 <= s1 <= S3 and 0 <= s2 <= S3 and 0 <= h0 <= H3 and 0 <= h1 <= H3 and 0 <= h2 <= H3
    pre: 0 <= x1 <= X3 and (c1 or x1 == 0)
    post: _
    """
    return _scenario([False, False, k2], [s0, s1, s2], [h0, h1, h2], [False, c1, False], [0, x1, 0])


@obligation(quick=400, thorough=800, partitions_quick=[f"s2 == {a} and y2 == {y} and s3 {c}" for a in range(4) for y in range(3) for c in ("<= 1", ">= 2")],
            partitions_thorough=[f"s2 == {a} and s3 == {b} and y2 == {y}" for a in range(4) for b in range(4) for y in range(3)],
            what="4 users: a holder, a queued waiter and a late-comer on key a (the late-comer may arrive in the very loop iteration in which the "
                 "holder releases and hands the lock to the waiter), and a user of the FREE key b arriving around that moment: exclusion on a, "
                 "the user of b enters at once, everybody enters, no residue, the bookkeeping lock is never left held",
            bounds={"users": "3 on key a + 1 on key b", "start": "0 / 0..2 / 0..3 / 0..3 (+ 0..2 / 0..3 extra loop iterations within the instant)", "hold": "1..2, 0..2, 0..2, 0..1"})
def ob_four_users_handover(h0: int, s1: int, s2: int, s3: int, h1: int, h2: int, h3: int, y2: int = 0, y3: int = 0) -> bool:
    """
    pre: 1 <= h0 <= 2 and 0 <= s1 <= 2 and 0 <= s2 <= 3 and 0 <= s3 <= 3 and 0 <= h1 <= 2 and 0 <= h2 <= 2 and 0 <= h3 <= 1
    pre: 0 <= y2 <= 2 and 0 <= y3 <= 3
    post: _
    """
    y2 = 0 if y2 == 0 else (1 if y2 == 1 else 2)
    y3 = 0 if y3 == 0 else (1 if y3 == 1 else (2 if y3 == 2 else 3))
    return _scenario([False, False, False, True], [0, s1, s2, s3], [h0, h1, h2, h3], [False] * 4, [0] * 4, yields=[0, 0, y2, y3])


H0C = B(2, 3)
S2C = B(2, 3)
X1C = B(3, 5)


@obligation(quick=120, thorough=400, partitions_quick=[f"cy == {c}" for c in range(4)], partitions_thorough=[f"cy == {c} and s2 == {a}" for c in range(4) for a in range(4)],
            what="3 users of ONE key: a holder, a queued waiter that is cancelled at a symbolic instant and cy loop iterations INTO that instant "
                 "(so the cancellation can land after the holder's release of the same instant handed the lock over, before the waiter resumed), "
                 "and a second waiter behind it: exclusion, the second waiter and every non-cancelled user enter, no residue",
            bounds={"users": "3 on one key", "start": "0 / 0..1 / 0..2 (thorough 0..3)", "hold": "1..2 (thorough 1..3), 0..1, 0..1", "cancel instant": "0..3 (thorough 0..5)", "extra loop iterations before the cancel": "0..3"})
def ob_cancel_at_handover(h0: int, s1: int, s2: int, h1: int, h2: int, x1: int, cy: int) -> bool:
    """
    pre: 1 <= h0 <= H0C and 0 <= s1 <= 1 and 0 <= s2 <= S2C and 0 <= h1 <= 1 and 0 <= h2 <= 1 and 0 <= x1 <= X1C and 0 <= cy <= 3
    post: _
    """
    cy = 0 if cy == 0 else (1 if cy == 1 else (2 if cy == 2 else 3))
    return _scenario([False, False, False], [0, s1, s2], [h0, h1, h2], [False, True, False], [0, x1, 0], cyields=[0, cy, 0])


@obligation(quick=None, thorough=500, partitions_thorough=_P3T,
            what="3 users, keys of users 1,2 symbolic, users 1,2 cancellable at symbolic instants",
            bounds={"users": 3, "keys": 2, "start": "0..S3", "hold": "0..H3", "cancel instant": "0..X3"})
def ob_three_users(k1: bool, k2: bool, s0: int, s1: int, s2: int, h0: int, h1: int, h2: int, c1: bool, c2: bool, x1: int, x2: int) -> bool:
    """
    pre: 0 <= s0 <= S3 and 0 <= s1 <= S3 and 0 <= s2 <= S3 and 0 <= h0 <= H3 and 0 <= h1 <= H3 and 0 <= h2 <= H3
    pre: 0 <= x1 <= X3 and 0 <= x2 <= X3
    pre: (c1 or x1 == 0) and (c2 or x2 == 0)
    post: _
    """
    return _scenario([False, k1, k2], [s0, s1, s2], [h0, h1, h2], [False, c1, c2], [0, x1, x2])


# ----------------------------------------------------------------------------------------------- a holder that starts a task
def _scenario_spawn(h0, dsp, kc, sc, hc, s2, h2) -> bool:
    """user 0 takes key a at instant 0 and holds it for h0; dsp instants into its critical section it STARTS a task (ensure_future: the
    child inherits a copy of the holder's context) which sc instants later takes key a (or b when kc) for hc; an unrelated user 2 takes
    key a at s2 for h2."""
    loop = SymLoop()
    ok = [True]
    entered = {}
    inside = {}
    want = {}
    children = []

    async def main():
        kl = KeyedLock()

        async def section(name: str, key: str, h, inner=None):
            free = want.get(key, 0) == 0
            t_req = loop.time()
            want[key] = want.get(key, 0) + 1
            try:
                async with kl(key):
                    entered[name] = True
                    inside[key] = inside.get(key, 0) + 1
                    if inside[key] > 1:
                        ok[0] = False  # two holders of one key
                    if free and loop.time() != t_req:
                        ok[0] = False  # had to wait for a free key
                    try:
                        if inner is not None:
                            await inner()
                        else:
                            await asyncio.sleep(h)
                    finally:
                        inside[key] -= 1
            finally:
                want[key] -= 1

        async def child():
            await asyncio.sleep(sc)
            await section("child", "b" if kc else "a", hc)

        async def parent_body():
            await asyncio.sleep(dsp)
            children.append(asyncio.ensure_future(child()))
            await asyncio.sleep(h0 - dsp)

        async def other():
            await asyncio.sleep(s2)
            await section("other", "a", h2)

        ts = [asyncio.ensure_future(section("parent", "a", h0, parent_body)), asyncio.ensure_future(other())]
        res = await asyncio.gather(*ts, return_exceptions=True)
        res += await asyncio.gather(*children, return_exceptions=True)
        reraise_foreign(res)
        for r in res:
            if isinstance(r, BaseException):
                raise r
        if not (entered.get("parent") and entered.get("child") and entered.get("other")):
            ok[0] = False
        if len(kl._locks) != 0 or len(kl._refs) != 0:
            ok[0] = False  # residue
        ml = kl._main_lock
        if ml is not None and ml.locked():
            ok[0] = False

    loop.run_until_complete(main())
    return ok[0]


@obligation(quick=120, thorough=400, partitions_quick=[f"kc == {k} and dsp == {d}" for k in (False, True) for d in (0, 1, 2)],
            partitions_thorough=[f"kc == {k} and dsp == {d} and sc == {s}" for k in (False, True) for d in (0, 1, 2, 3) for s in (0, 1, 2, 3)],
            what="a holder STARTS a task from inside its critical section (the reload path does: the control loop it starts later takes the same "
                 "key) and that task takes the same key (or the other one) while the holder or an unrelated user holds it: exclusion per key "
                 "holds for the child like for anybody else, a free key is entered at once, everybody enters, no residue",
            bounds={"parent hold": "1..2 (thorough 3)", "spawn instant inside the section": "0..hold", "child": "start +0..3, hold 0..2, key a / b",
                    "unrelated user of key a": "start 0..3, hold 0..2"})
def ob_task_started_by_a_holder(h0: int, dsp: int, kc: bool, sc: int, hc: int, s2: int, h2: int) -> bool:
    """
    pre: 1 <= h0 <= HSP and 0 <= dsp <= h0 and 0 <= sc <= 3 and 0 <= hc <= 2 and 0 <= s2 <= 3 and 0 <= h2 <= 2
    post: _
    """
    return _scenario_spawn(h0, dsp, kc, sc, hc, s2, h2)


HSP = B(2, 3)
