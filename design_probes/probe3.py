from __future__ import annotations
import chpatch
from typing import List
from workflows import Workflow, step
from workflows.events import Event, StartEvent, StopEvent, WorkflowIdleEvent
from workflows.retry_policy import retry_policy, wait_fixed, stop_after_attempt
from workflows.runtime.control_loop import _ControlLoopRunner
from workflows.runtime.types.internal_state import BrokerState
from workflows.runtime.types.plugin import InternalRunAdapter
from workflows.runtime.types.results import StepWorkerFailed
from workflows.runtime.types.ticks import TickAddEvent, TickStepResult, TickIdleCheck

class StubAdapter(InternalRunAdapter):
    def __init__(self, times: List[int]):
        self.times = times; self.ti = 0; self.now = 0
        self.published = []; self.ticks = []
    @property
    def run_id(self): return "r"
    async def write_to_event_stream(self, event): self.published.append(event)
    async def get_now(self):
        if self.ti < len(self.times):
            self.now = self.now + self.times[self.ti]; self.ti += 1
        return self.now
    async def send_event(self, tick): pass
    async def wait_receive(self, timeout_seconds=None): raise NotImplementedError
    async def on_tick(self, tick): self.ticks.append(tick)
    def get_state_store(self): return None

def drive(coro):
    try:
        coro.send(None)
    except StopIteration as e:
        return e.value
    raise RuntimeError("coroutine suspended: adapter stub must not block")

def idle_only_when_no_pending_retry(delay: int, n: int, times: List[int]) -> bool:
    """
    pre: 0 <= delay <= 3 and 1 <= n <= 3
    pre: len(times) == 8 and all(0 <= t <= 2 for t in times)
    post: _
    """
    class W(Workflow):
        @step(retry_policy=retry_policy(wait=wait_fixed(delay), stop=stop_after_attempt(n)))
        async def s1(self, ev: StartEvent) -> StopEvent:
            return StopEvent()
    wf = W(timeout=None)
    wf._validate()
    ad = StubAdapter(times)
    runner = _ControlLoopRunner(wf, ad, None, {}, BrokerState.from_workflow(wf))
    start = StartEvent()
    runner.tick_buffer.append(TickAddEvent(event=start))
    ok = True
    steps = 0
    try:
        while runner.tick_buffer and steps < 6:
            steps += 1
            tick = runner.tick_buffer.pop(0)
            if isinstance(tick, TickIdleCheck):
                runner._idle_check_pending = False
            before = len(ad.published)
            res = drive(runner._process_tick(tick))
            new = ad.published[before:]
            if any(isinstance(e, WorkflowIdleEvent) for e in new):
                if any(isinstance(t, TickAddEvent) for (_, _, t) in runner.scheduled_wakeups):
                    ok = False
            # environment: worker for s1 fails once
            for p in runner._pending_workers:
                p.coro.close()
                runner.tick_buffer.append(TickStepResult(step_name=p.step_name, worker_id=p.worker_id, event=start,
                    result=[StepWorkerFailed(exception=ValueError("x"), failed_at=ad.now)]))
            runner._pending_workers.clear()
    except ValueError:
        pass
    return ok
