from __future__ import annotations
import chpatch
from typing import List
from workflows.events import Event, StartEvent, StopEvent
from workflows.decorators import StepConfig
from workflows.runtime.control_loop import _reduce_tick
from workflows.runtime.types.internal_state import (BrokerState, BrokerConfig, InternalStepConfig,
    InternalStepWorkerState, InProgressState, EventAttempt)
from workflows.runtime.types.results import StepWorkerState, StepWorkerResult
from workflows.runtime.types.ticks import TickAddEvent, TickStepResult
from workflows.runtime.types.commands import CommandRunWorker

class EvA(Event): pass
class EvB(Event): pass

EVA = EvA(); EVB = EvB(); START = StartEvent()

def mk_state(nw: int, ids: List[int], qlen: int) -> BrokerState:
    cfg = StepConfig(accepted_events=[EvA], event_name="ev", return_types=[EvB], context_parameter=None,
                     num_workers=nw, retry_policy=None, resources=[])
    icfg = InternalStepConfig(accepted_events=[EvA], retry_policy=None, num_workers=nw)
    ws = InternalStepWorkerState(
        queue=[EventAttempt(event=EVA) for _ in range(qlen)],
        config=cfg,
        in_progress=[InProgressState(event=EVA, worker_id=i,
                        shared_state=StepWorkerState(step_name="a", collected_events={}, collected_waiters=[]),
                        attempts=0, first_attempt_at=0.0) for i in ids],
        collected_events={}, collected_waiters=[])
    return BrokerState(is_running=True, config=BrokerConfig(steps={"a": icfg}, timeout=None), workers={"a": ws})

def inv(st: BrokerState) -> bool:
    for name, ws in st.workers.items():
        nw = ws.config.num_workers
        ids = [x.worker_id for x in ws.in_progress]
        if len(ids) > nw: return False
        if len(set(ids)) != len(ids): return False
        if any(i < 0 or i >= nw for i in ids): return False
        if ws.queue and len(ids) < nw: return False
    return True

def add_event_preserves(nw: int, ids: List[int], qlen: int) -> bool:
    """
    pre: 1 <= nw <= 4
    pre: 0 <= qlen <= 2
    pre: len(ids) <= 4
    pre: inv(mk_state(nw, ids, qlen))
    post: _
    """
    st = mk_state(nw, ids, qlen)
    tick = TickAddEvent.model_construct(event=EVA, step_name=None, attempts=None, first_attempt_at=None,
                                        last_exception=None, last_failed_at=None, recovery_counts={})
    st2, cmds = _reduce_tick(tick, st, 1.0)
    runs = [c for c in cmds if isinstance(c, CommandRunWorker)]
    return inv(st2) and len(runs) <= 1

def step_result_preserves(nw: int, ids: List[int], qlen: int, wid: int) -> bool:
    """
    pre: 1 <= nw <= 4
    pre: 0 <= qlen <= 2
    pre: len(ids) <= 4
    pre: inv(mk_state(nw, ids, qlen))
    pre: wid in ids
    post: _
    """
    st = mk_state(nw, ids, qlen)
    tick = TickStepResult.model_construct(step_name="a", worker_id=wid, event=EVA,
                                          result=[StepWorkerResult(result=None)])
    st2, cmds = _reduce_tick(tick, st, 1.0)
    return inv(st2)
