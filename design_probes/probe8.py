from __future__ import annotations
import chpatch
import asyncio
from typing import List
from miniloop import MiniLoop
from workflows import Workflow, step, Context
from workflows.events import Event, StartEvent, StopEvent
from workflows.plugins.basic import BasicRuntime, InternalAsyncioAdapter
from workflows.runtime.types.plugin import WaitForNextTaskResult
from workflows.runtime.types.named_task import all_tasks

class Env:
    def __init__(self, choices: List[int]):
        self.choices = choices; self.ci = 0
        self.gates: list = []
        self.now = 0.0
        self.running = {}; self.maxrun = {}
    def choose(self, n: int) -> int:
        if n <= 1 or self.ci >= len(self.choices):
            return 0
        c = self.choices[self.ci]; self.ci += 1
        for k in range(n - 1):
            if c == k:
                return k
        return n - 1
    async def gate(self):
        f = asyncio.get_running_loop().create_future()
        self.gates.append(f)
        await f

class SymAdapter(InternalAsyncioAdapter):
    def __init__(self, queues, env: Env):
        super().__init__(queues); self.env = env
    async def get_now(self) -> float:
        return self.env.now
    async def wait_for_next_task(self, running, pending, timeout=None):
        started = [p.start(asyncio.create_task(p.coro)) for p in pending]
        named = running + started
        while True:
            for _ in range(6):
                await asyncio.sleep(0)
            done = [nt.task for nt in named if nt.task.done()]
            open_gates = [g for g in self.env.gates if not g.done()]
            n = len(done) + len(open_gates)
            if n == 0:
                if timeout is not None:
                    self.env.now += timeout
                    return WaitForNextTaskResult(None, started)
                raise RuntimeError("deadlock in harness")
            k = self.env.choose(n)
            if k < len(done):
                return WaitForNextTaskResult(done[k], started)
            open_gates[k - len(done)].set_result(None)

class SymRuntime(BasicRuntime):
    def __init__(self, env: Env):
        super().__init__(); self.env = env
    def get_internal_adapter(self, workflow):
        base = super().get_internal_adapter(workflow)
        return SymAdapter(base._queues, self.env)

class B(Event):
    i: int
class C(Event):
    i: int

def fanout(nw: int, choices: List[int]) -> bool:
    """
    pre: 1 <= nw <= 2
    pre: len(choices) == 6 and all(0 <= c <= 3 for c in choices)
    post: _
    """
    env = Env(choices)
    class W(Workflow):
        @step
        async def start(self, ctx: Context, ev: StartEvent) -> B | None:
            ctx.send_event(B(i=0)); ctx.send_event(B(i=1))
        @step(num_workers=nw)
        async def work(self, ev: B) -> C:
            env.running["work"] = env.running.get("work", 0) + 1
            env.maxrun["work"] = max(env.maxrun.get("work", 0), env.running["work"])
            await env.gate()
            env.running["work"] -= 1
            return C(i=ev.i)
        @step
        async def join(self, ctx: Context, ev: C) -> StopEvent | None:
            got = ctx.collect_events(ev, [C, C])
            if got is None:
                return None
            return StopEvent(result=sorted(e.i for e in got))
    res = []
    async def main():
        h = W(timeout=None, runtime=SymRuntime(env)).run(run_id="r")
        res.append(await h)
    loop = MiniLoop()
    loop.run_until_complete(main())
    return res == [[0, 1]] and env.maxrun.get("work", 0) <= nw
