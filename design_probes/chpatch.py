from crosshair import register_patch, NoTracing, deep_realize
from pydantic_core import SchemaValidator
_orig = SchemaValidator.validate_python
def _validate_python(self, input, *a, **kw):
    return _orig(self, deep_realize(input), *a, **kw)
register_patch(SchemaValidator.validate_python, _validate_python)
