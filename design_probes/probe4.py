from __future__ import annotations
import chpatch
import asyncio, sys, types
from typing import List
from miniloop import MiniLoop
m = types.ModuleType('llama_agents.server'); m.__path__=['/repo/packages/llama-agents-server/src/llama_agents/server']
sys.modules.setdefault('llama_agents.server', m)
from llama_agents.server._keyed_lock import KeyedLock

class SchedLoop(MiniLoop):
    """MiniLoop whose next ready handle is chosen by a symbolic schedule."""
    def __init__(self, choices: List[int]):
        super().__init__()
        self.choices = choices
        self.ci = 0
    def pick(self, n: int) -> int:
        if n <= 1 or self.ci >= len(self.choices):
            return 0
        c = self.choices[self.ci]; self.ci += 1
        # branch on symbolic choice
        for k in range(n):
            if c == k:
                return k
        return 0
    def run_until_complete(self, coro):
        from asyncio import events
        events._set_running_loop(self)
        try:
            t = self.create_task(coro)
            while not t.done():
                if self._ready:
                    k = self.pick(len(self._ready))
                    self._ready.rotate(-k)
                    h = self._ready.popleft()
                    self._ready.rotate(k)
                    if not h._cancelled:
                        h._run()
                else:
                    raise RuntimeError("deadlock")
            return t.result()
        finally:
            events._set_running_loop(None)

def keyed_lock_mutex(choices: List[int], k1: int, k2: int, k3: int) -> bool:
    """
    pre: len(choices) == 6
    pre: all(0 <= c <= 3 for c in choices)
    pre: 0 <= k1 <= 1 and 0 <= k2 <= 1 and 0 <= k3 <= 1
    post: _
    """
    loop = SchedLoop(choices)
    ok = [True]
    async def main():
        kl = KeyedLock()
        inside = {}
        async def worker(key: str):
            async with kl(key):
                inside[key] = inside.get(key, 0) + 1
                if inside[key] > 1:
                    ok[0] = False
                await asyncio.sleep(0)
                inside[key] -= 1
        keys = ["a" if k == 0 else "b" for k in (k1, k2, k3)]
        ts = [asyncio.ensure_future(worker(k)) for k in keys]
        await asyncio.gather(*ts)
        if kl._locks or kl._refs:
            ok[0] = False
    loop.run_until_complete(main())
    return ok[0]
