#!/usr/bin/env bash
# Developer aid (not a registered check): run a package's own test-suite against /repo's working tree with the
# no-op instrumentation shim, to see that a "fix:" commit does not change behaviour the package's tests pin.
# usage: tools/pkgtests.sh [package-dir-name] [pytest args...]   default: llama-index-workflows
set -u
PKG=${1:-llama-index-workflows}; shift || true
cd "${VERIF_REPO:-/repo}/packages/$PKG"
V=/verif
SRC=""
for d in "${VERIF_REPO:-/repo}"/packages/*/src; do SRC="$SRC:$d"; done
PYTHONPATH=$V/tools/tmshim:$V/shims$SRC exec $V/.venv/bin/python -m pytest tests -q -p no:cacheprovider --timeout=120 -n 4 -o addopts="" "$@"
