#!/usr/bin/env python3
"""Regenerate MANIFEST.json from tools/claims.json (one record per claimed property) + the not-applicable list.
Run after adding/removing a harness:  python3 tools/gen_manifest.py"""
import json
import os

HERE = os.path.dirname(os.path.abspath(__file__))
ROOT = os.path.dirname(HERE)

claims = json.load(open(os.path.join(HERE, "claims.json")))
props = [json.loads(l)["id"] for l in open(os.path.join(ROOT, "properties.jsonl")) if l.strip()]

checks = []
for pid in props:
    c = claims["claimed"].get(pid)
    if not c:
        continue
    if not os.path.exists(os.path.join(ROOT, "harness", f"{pid}.py")):
        raise SystemExit(f"claimed {pid} has no harness")
    checks.append(
        {
            "property_id": pid,
            "quick_cmd": f"./check {pid} --tier quick",
            "thorough_cmd": f"./check {pid} --tier thorough",
            "evidence_file": f"/verif/evidence/{pid}.json",
            "replay_cmd_template": "./check replay {path}",
            "engine": c.get("engine", "S"),
            "level_claimed": {
                "category": "other",
                "text": c["text"],
                "design_ref": c.get("design_ref", f"DESIGN.md §2 {pid}"),
            },
            "level_note": c["note"],
            "technique": c["technique"],
        }
    )
na = [{"property_id": pid, "reason": claims["not_applicable"][pid]} for pid in props if pid in claims["not_applicable"]]
missing = [p for p in props if p not in claims["claimed"] and p not in claims["not_applicable"]]
if missing:
    raise SystemExit(f"properties neither claimed nor not_applicable: {missing}")

manifest = {
    "version": 1,
    "setup_cmd": "./setup.sh",
    "hooks": {
        "guard": "RUN_LLAMA_WORKFLOWS_PY_VERIF",
        "enable": "no source hooks are needed: checks import /repo's working tree directly (PYTHONPATH) and observe it through "
        "its public extension points; the guard variable is set to 1 by ./check for forward compatibility",
        "baseline_off_cmd": "cd /repo && env -u RUN_LLAMA_WORKFLOWS_PY_VERIF /venv/bin/python -m pytest -ra -q -p no:cacheprovider --timeout=900 --continue-on-collection-errors",
        "source_commits": claims.get("hook_commits", []),
        "add_only": True,
    },
    "engines": [
        {
            "name": "S",
            "path": "vlib/chdrive.py",
            "serves_properties": [c["property_id"] for c in checks if "S" in c["engine"]],
            "kind_free_text": "symbolic execution of the real Python with CrossHair 0.0.110 + z3 5.1 (per-obligation contract harness, "
            "reachability twin, native replay of counterexamples)",
        },
        {
            "name": "T",
            "path": "vlib/smt.py",
            "serves_properties": [c["property_id"] for c in checks if "T" in c["engine"]],
            "kind_free_text": "AST->SMT translation of arithmetic/string kernels from the current source, decided by z3 5.1, "
            "cross-checked with /usr/bin/z3 4.8.12, models replayed natively",
        },
    ],
    "checks": checks,
    "not_applicable": na,
    "notes": "Solver-based bounded checking; see DESIGN.md. Exit 3 = harness error (never a verdict). known_findings.json lists "
    "genuine defects recorded rather than repaired.",
}
json.dump(manifest, open(os.path.join(ROOT, "MANIFEST.json"), "w"), indent=1)
print(f"MANIFEST.json: {len(checks)} checks, {len(na)} not applicable")
