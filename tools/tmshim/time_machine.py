class Coordinates: pass
class TimeMachineFixture: pass
def travel(*a, **k):
    raise RuntimeError("time_machine not installed (shim)")
