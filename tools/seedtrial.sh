#!/usr/bin/env bash
# Developer aid (not a registered check): confirm a seeded breaking change and run a property's check against it.
# usage: tools/seedtrial.sh <seed-dir containing patch.diff + demo.py> <Cxx> [tier] [extra ./check args]
# Creates a scratch worktree of /repo HEAD under /tmp, applies the patch there (never in /repo), runs: the demo on the
# changed and on the unchanged tree, the pinned test-suite on the changed tree, the check with VERIF_REPO=<scratch>.
set -u
SEED=$(cd "$1" && pwd); PID=$2; TIER=${3:-quick}; shift; shift; shift || true
WT=/tmp/st-$(basename "$SEED")-$$
git -C /repo worktree add -q --detach "$WT" HEAD || exit 2
trap 'git -C /repo worktree remove --force "$WT" >/dev/null 2>&1' EXIT
if ! git -C "$WT" apply "$SEED/patch.diff"; then echo "SEEDTRIAL patch does not apply"; exit 2; fi
echo "--- demo on changed tree (expect exit 1)"; TREE=$WT timeout 300 /venv/bin/python "$SEED/demo.py" 2>&1 | tail -4; echo "demo_changed_exit=${PIPESTATUS[0]}"
echo "--- demo on unchanged tree (expect exit 0)"; TREE=/repo timeout 300 /venv/bin/python "$SEED/demo.py" 2>&1 | tail -2; echo "demo_clean_exit=${PIPESTATUS[0]}"
echo "--- pinned suite on changed tree"; (cd "$WT" && timeout 900 /venv/bin/python -m pytest -q -p no:cacheprovider tests 2>&1 | tail -1)
echo "--- ./check $PID --tier $TIER on changed tree (expect exit 1 + VIOLATION)"
cd /verif && VERIF_REPO=$WT VERIF_WORK=/tmp/vwork-st-$$ VERIF_EVIDENCE_DIR=/tmp/vwork-st-$$/evidence ./check "$PID" --tier "$TIER" "$@" 2>&1 | grep -v "^KNOWN-FINDING\|INCONCLUSIVE" | cut -c1-260 | tail -8
echo "check_exit=${PIPESTATUS[0]}"
rm -rf /tmp/vwork-st-$$
