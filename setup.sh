#!/usr/bin/env bash
# Build the overlay venv (offline): /venv's interpreter + its site-packages via a .pth + crosshair/z3/jsonschema
# from the local wheelhouse. Idempotent and safe under concurrent invocation.
set -eu
cd "$(dirname "$0")"
V=.venv
ok() { [ -x "$V/bin/python" ] && "$V/bin/python" -c "import crosshair, z3, pydantic, jsonschema" >/dev/null 2>&1; }
if ok; then exit 0; fi
exec 9>.setup.lock
flock 9
if ok; then exit 0; fi
rm -rf "$V"
/venv/bin/python -m venv "$V"
SP=$("$V/bin/python" -c "import sysconfig; print(sysconfig.get_paths()['purelib'])")
echo "import site; site.addsitedir('/venv/lib/python3.12/site-packages')" > "$SP/_overlay.pth"
PIP_NO_INDEX=1 "$V/bin/pip" install -q --no-index --find-links /opt/veriftools/wheels crosshair-tool z3-solver jsonschema
ok
