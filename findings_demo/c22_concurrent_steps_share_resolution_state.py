"""C22 known finding: ResourceManager keeps its per-resolution bookkeeping (_resolving, _resolution_cache,
_resolution_depth) per MANAGER, so two step invocations resolving resources at the same time interfere:
 (1) a cached async resource is created twice; (2) a false 'Circular resource dependency' error.
Exit 1 while the defect is present."""
import asyncio
import os
import sys
from typing import Annotated

REPO = os.environ.get("VERIF_REPO", "/repo")
sys.path[:0] = [os.path.join(REPO, "packages/llama-index-workflows/src"), "/verif/shims"]

from workflows.resource import Resource, ResourceManager  # noqa: E402

created = []


class Client:
    pass


async def make_client() -> Client:
    await asyncio.sleep(0.01)
    c = Client()
    created.append(c)
    return c


async def main() -> int:
    bad = 0
    # (1) cached resource, two concurrent step invocations of the same workflow instance (= same manager)
    m = ResourceManager()
    r = Resource(make_client, cache=True)
    a, b = await asyncio.gather(m.get(r), m.get(r), return_exceptions=True)
    print("cached resource, two concurrent steps ->", repr(a)[:90], "|", repr(b)[:90], "| factory calls:", len(created))
    bad |= len(created) != 1 or a is not b
    # (2) no cycle anywhere, yet a concurrent resolution of the same NON-cached resource reports one
    m2 = ResourceManager()
    r2 = Resource(make_client, cache=False)

    async def one():
        with m2.resolution_scope():  # what step_function.partial() does per invocation
            return await m2.get(r2)

    res = await asyncio.gather(one(), one(), return_exceptions=True)
    errs = [x for x in res if isinstance(x, Exception)]
    print("errors with two concurrent resolutions of an acyclic resource:", [str(e)[:80] for e in errs])
    bad |= bool(errs)
    return 1 if bad else 0


sys.exit(asyncio.run(main()))
