"""C21 finding: SqliteWorkflowStore(single_connection=True) hands its ONE persistent connection to every SqliteStateStore it
creates, and SqliteStateStore closes whatever _connect() returned (`finally: conn.close()` in _load_state / set_state /
_copy_state_from_run, `should_close` in _save_state).  The first state-store operation therefore closes the store's only
connection: `set` fails by itself (load closes, save re-uses the closed connection) and after any `get` every later handler /
event / tick / state operation raises sqlite3.ProgrammingError.  The same script on a per-call-connection store works.
Exit 1 when the defect is present, 0 otherwise.  Run: PYTHONPATH=/verif /verif/.venv/bin/python this_file.py"""
import vlib.boot  # noqa
import asyncio
import os
import shutil
import sys
import tempfile

from llama_agents.server._store.abstract_workflow_store import HandlerQuery, PersistentHandler
from llama_agents.server._store.sqlite.sqlite_workflow_store import SqliteWorkflowStore


async def script(store):
    out = []

    async def op(name, coro_fn):
        try:
            out.append((name, "ok", await coro_fn()))
        except Exception as e:  # noqa: BLE001
            out.append((name, "raised", "%s: %s" % (type(e).__name__, e)))

    await op("update handler", lambda: store.update(PersistentHandler(handler_id="h", workflow_name="w", status="running", run_id="r")))
    ss = store.create_state_store("r")
    await op("state.set k=1", lambda: ss.set("k", 1))
    await op("state.get k", lambda: ss.get("k", None))
    await op("query handlers", lambda: _ids(store))
    await op("append_tick", lambda: store.append_tick("r", {"i": 1}))
    return out


async def _ids(store):
    return [h.handler_id for h in await store.query(HandlerQuery())]


def main() -> int:
    d = tempfile.mkdtemp()
    try:
        try:
            single = SqliteWorkflowStore(os.path.join(d, "single.db"), single_connection=True)
        except Exception as e:  # noqa: BLE001
            print("not runnable here (sqlite3 without URI / unix-none VFS):", e)
            return 0
        percall = SqliteWorkflowStore(os.path.join(d, "percall.db"))
        a = asyncio.run(script(single))
        b = asyncio.run(script(percall))
        bad = 0
        for x, y in zip(a, b):
            same = x == y
            bad += not same
            print("%-16s single_connection=True: %-70s per-call: %s%s" % (x[0], x[1:], y[1:], "" if same else "   <-- DIFFERS"))
        if bad:
            print("VIOLATED: %d of %d operations behave differently on the single-connection store" % (bad, len(a)))
            return 1
        print("ok: both connection modes agree")
        return 0
    finally:
        shutil.rmtree(d, ignore_errors=True)


sys.exit(main())
