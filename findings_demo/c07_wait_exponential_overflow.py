"""C07 finding: the exponential wait strategies compute ``exp_base ** attempts`` with no overflow guard, so once that power
leaves the double range the strategy RAISES OverflowError instead of returning its (clamped) delay:
wait_exponential() / wait_exponential_jitter() / wait_random_exponential() / wait_full_jitter() with their DEFAULT parameters
raise at attempts = 1024 (exp_base=10: at 309; exp_base=1e200: at 2).  The clamp ``min(..., max)`` that documents the result
as "clamped between min and max" is never reached.  Because the exception comes out of ``policy.next()`` inside the reducer,
a long-retrying step ends the whole run with OverflowError instead of another retry (or its own failure).
tenacity — whose semantics the module mirrors — catches OverflowError and returns ``max``.

Run: PYTHONPATH=/verif /verif/.venv/bin/python this_file.py      exit 1 = defect present, 0 = absent"""
import vlib.boot  # noqa: F401
import asyncio
import sys

from workflows import Workflow, step
from workflows.events import StartEvent, StopEvent
from workflows.retry_policy import (
    retry_policy, stop_after_attempt, wait_exponential, wait_exponential_jitter, wait_full_jitter, wait_random_exponential,
)

bad = 0

print("-- direct calls (public constructors, documented result: a delay clamped to [min, max])")
for label, make, k in [
    ("wait_exponential()", lambda: wait_exponential(), 1024),
    ("wait_exponential_jitter()", lambda: wait_exponential_jitter(), 1024),
    ("wait_random_exponential()", lambda: wait_random_exponential(), 1024),
    ("wait_full_jitter()", lambda: wait_full_jitter(), 1024),
    ("wait_exponential(multiplier=0.1, exp_base=10, max=30)", lambda: wait_exponential(multiplier=0.1, exp_base=10, max=30), 309),
]:
    w = make()
    before = w(k - 1, seed=1)
    try:
        d = w(k, seed=1)
        print(f"ok       {label}({k}) = {d}  (attempts={k - 1}: {before})")
    except OverflowError as e:
        bad += 1
        print(f"VIOLATED {label}({k - 1}) = {before} but {label}({k}) raises OverflowError{e.args}")

print("-- through retry_policy(...).next()")
pol = retry_policy(wait=wait_exponential(max=60), stop=stop_after_attempt(5000))
try:
    print("ok       next(elapsed, 1024, err) =", pol.next(10.0, 1024, ValueError("x"), seed=3))
except OverflowError as e:
    bad += 1
    print(f"VIOLATED retry_policy(wait=wait_exponential(max=60), stop=stop_after_attempt(5000)).next(10.0, 1024, err) raises OverflowError{e.args}")

print("-- whole run: a step that always fails, retried without delay (max=0) up to 400 attempts, exp_base=10")
runs = []


class W(Workflow):
    @step(retry_policy=retry_policy(wait=wait_exponential(multiplier=1, exp_base=10, max=0), stop=stop_after_attempt(400)))
    async def s(self, ev: StartEvent) -> StopEvent:
        runs.append(1)
        raise ValueError("step failed")


async def main() -> str:
    try:
        await W(timeout=60).run()
        return "completed"
    except Exception as e:  # noqa: BLE001
        return f"{type(e).__name__}: {e}"


outcome = asyncio.run(main())
if "OverflowError" in outcome or "Numerical result out of range" in outcome:
    bad += 1
    print(f"VIOLATED the run ended after {len(runs)} executions of the step with {outcome!r} (budget: 400 attempts, expected the step's ValueError)")
else:
    print(f"ok       the run ended after {len(runs)} executions with {outcome!r}")

print("defect present" if bad else "defect absent")
sys.exit(1 if bad else 0)
