"""C26 finding (in-process server stack; same root as C14): a run is released while it still has scheduled work — the
timeout of a pending wait_for_event lives only in the control loop's in-memory timer heap.  The engine announces the run
idle (the reducer's _check_idle_state cannot see the heap), the idle-release timer aborts the loop, and the scheduled
TickWaiterTimeout is gone: after the release nothing ever delivers the TimeoutError, the step never resumes, the handler
stays 'running' forever although wait_for_event(timeout=0.5) promised a TimeoutError after half a second.

Real stack as in WorkflowServer.__init__ (ServerRuntimeDecorator(IdleReleaseDecorator(PersistenceDecorator(BasicRuntime)))
+ MemoryWorkflowStore + _WorkflowService), plain asyncio, real time.
Run: PYTHONPATH=/verif /verif/.venv/bin/python /verif/findings_demo/c26_inproc_release_with_pending_waiter_timeout.py
exit 1 = defect present, 0 = not present."""
import vlib.boot  # noqa: F401
import asyncio
import logging
import sys

from vlib import h_idle

logging.disable(logging.CRITICAL)

from llama_agents.server._store.abstract_workflow_store import HandlerQuery  # noqa: E402
from workflows import Context, Workflow, step  # noqa: E402
from workflows.events import HumanResponseEvent, StartEvent, StopEvent  # noqa: E402


class Answer(HumanResponseEvent):
    n: int


class Ask(Workflow):
    @step
    async def ask(self, ctx: Context, ev: StartEvent) -> StopEvent:
        try:
            a = await ctx.wait_for_event(Answer, waiter_id="q", timeout=0.5)
        except asyncio.TimeoutError:
            return StopEvent(result="timed out")
        return StopEvent(result=a.n)


async def run(idle_timeout: float) -> str:
    st = h_idle.InprocStack(idle_timeout)
    wf = Ask(timeout=None)
    st.add_workflow("ask", wf)
    await st.service.start()
    h = await st.service.start_workflow(wf, "h", None)
    await asyncio.sleep(1.5)
    rec = (await st.store.query(HandlerQuery(run_id_in=[h.run_id])))[0]
    pend = [a for a in st.basic.aborts if a["was_running"] and a["wakeup_pending"]]
    print(f"idle_timeout={idle_timeout}: 1.5 s after the start: status={rec.status} "
          f"result={rec.result.result if rec.result else None} idle={rec.idle_since is not None}; "
          f"releases with a timer still scheduled: {len(pend)}")
    await st.service.stop()
    return rec.status


async def main() -> int:
    s_long = await run(60.0)   # no release within the experiment: the waiter times out, the run completes
    s_short = await run(0.1)   # released after 0.1 s with the 0.5 s waiter timeout pending
    return 0 if (s_long == "completed" and s_short == "completed") else 1


if __name__ == "__main__":
    rc = asyncio.run(main())
    print("VIOLATED: released with a waiter timeout scheduled; the timeout is lost and the run never finishes" if rc
          else "ok: the waiter timeout survived the release")
    sys.exit(rc)
