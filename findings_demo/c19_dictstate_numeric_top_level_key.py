"""C19 finding: on the default (DictState) state a top-level key that looks like an integer ("0", "1", "-1") is not
handled like a key of a nested-dict model, and the two stores disagree with each other.

``traverse_path_step`` / ``assign_path_step`` try ``obj[int(segment)]`` on everything that is not a ``dict``.  A DictState
is a str-keyed mapping but not a dict, so ``store.set("0", v)`` writes the INT key 0 into it.
* InMemoryStateStore: get("0") works by accident, but the state now has the key 0, not "0" (``state["0"]`` KeyError,
  ``"0" in state`` False) and a state that really has the key "0" (``set_state(DictState(**{"0": 1}))``) cannot be read by path.
* SqliteStateStore: JSON turns the key into "0" when the state is saved, so the value just written cannot be read back:
  ``await store.set("0", 5); await store.get("0")`` raises ValueError("Path '0' not found in state").
The same segment one level down (``set("r.0", v)`` creates the dict {"0": v}) behaves like the model.

Exit 1 while the defect is present, 0 otherwise."""
import glob
import os
import sys
import types

REPO = os.environ.get("VERIF_REPO", "/repo")
sys.path[:0] = sorted(glob.glob(os.path.join(REPO, "packages/*/src"))) + ["/verif/shims"]
try:
    import starlette  # noqa: F401
except ImportError:  # sandbox without starlette: skip llama_agents/server/__init__.py, the sub-modules import unmodified
    _pkg = types.ModuleType("llama_agents.server")
    _pkg.__path__ = [os.path.join(REPO, "packages/llama-agents-server/src/llama_agents/server")]
    sys.modules["llama_agents.server"] = _pkg
import asyncio  # noqa: E402
import shutil  # noqa: E402
import tempfile  # noqa: E402

from llama_agents.server._store.sqlite.sqlite_workflow_store import SqliteWorkflowStore  # noqa: E402
from workflows.context.state_store import DictState, InMemoryStateStore  # noqa: E402


async def probe(store, label):
    bad = 0
    await store.set("7", "seven")
    try:
        got = await store.get("7")
    except Exception as e:  # noqa: BLE001
        got = "raises %s: %s" % (type(e).__name__, e)
    state = await store.get_state()
    keys = list(state.keys())
    print("%-20s set('7','seven'); get('7') -> %r ; keys of get_state() = %r" % (label, got, keys))
    bad += 0 if got == "seven" else 1
    bad += 0 if keys == ["7"] else 1
    await store.set_state(DictState(**{"0": "zero", "k": 1}))
    got = await store.get("0", "<not found>")
    print("%-20s set_state(DictState(**{'0': 'zero', 'k': 1})); get('0') -> %r" % (label, got))
    bad += 0 if got == "zero" else 1
    return bad


async def main():
    d = tempfile.mkdtemp()
    try:
        ws = SqliteWorkflowStore(os.path.join(d, "wf.db"))
        bad = await probe(InMemoryStateStore(DictState()), "InMemoryStateStore")
        bad += await probe(ws.create_state_store("run-1"), "SqliteStateStore")
    finally:
        shutil.rmtree(d, ignore_errors=True)
    print("DEFECT PRESENT: %d observations differ from a dict with the keys '7' / '0'" % bad if bad else "ok")
    return 1 if bad else 0


sys.exit(asyncio.run(main()))
