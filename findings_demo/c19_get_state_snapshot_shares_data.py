"""C19 finding: the object returned by ``InMemoryStateStore.get_state()`` for the default DictState is not a snapshot: it
shares the ``_data`` dict with the store, so assigning a key on it changes the store immediately, without set_state.

``get_state`` returns ``self._state.model_copy()``; pydantic's shallow copy makes a new model object and a new dict of
private attributes, but the ``_data`` dict object inside it is the same one.  Typed state models (top-level fields live in the
copied ``__dict__``) and SqliteStateStore (loads a fresh object) are isolated, as the StateStore protocol says
("Return a copy of the current state model").

Exit 1 while the defect is present, 0 otherwise."""
import glob
import os
import sys

REPO = os.environ.get("VERIF_REPO", "/repo")
sys.path[:0] = sorted(glob.glob(os.path.join(REPO, "packages/*/src"))) + ["/verif/shims"]

import asyncio  # noqa: E402

from pydantic import BaseModel  # noqa: E402
from workflows.context.state_store import DictState, InMemoryStateStore  # noqa: E402


class Typed(BaseModel):
    a: str = "old"


async def main():
    bad = 0
    store = InMemoryStateStore(DictState(a="old"))
    snap = await store.get_state()
    snap["a"] = "changed"       # overwrite a key of the snapshot
    snap["fresh"] = 1           # add a key
    snap.attr = 2               # attribute style
    seen = (await store.get("a"), await store.get("fresh", None), await store.get("attr", None))
    ok = seen == ("old", None, None)
    print("DictState: snapshot edited, no set_state -> store.get('a'), get('fresh'), get('attr') = %r  %s" % (seen, "ok" if ok else "STORE CHANGED"))
    bad += 0 if ok else 1
    await store.set_state(snap)
    seen = (await store.get("a"), await store.get("fresh", None), await store.get("attr", None))
    ok = seen == ("changed", 1, 2)
    print("DictState: after set_state(snapshot) -> %r  %s" % (seen, "ok" if ok else "NOT PUBLISHED"))
    bad += 0 if ok else 1
    tstore = InMemoryStateStore(Typed())
    tsnap = await tstore.get_state()
    tsnap.a = "changed"
    ok = (await tstore.get("a")) == "old"
    print("typed model: snapshot edited -> store.get('a') = %r  %s" % (await tstore.get("a"), "ok" if ok else "STORE CHANGED"))
    bad += 0 if ok else 1
    print("DEFECT PRESENT: get_state() of a DictState store is not a snapshot" if bad else "ok")
    return 1 if bad else 0


sys.exit(asyncio.run(main()))
