"""C13 / C14 known findings on the real in-process server stack (virtual clock):
 (1) KF-C13: restart from a tick log that ends with a step's completion (its emitted event not yet persisted as its own tick)
     -> the event is lost, the handler stays 'running';
 (2) KF-C14-1: wait_for_event(timeout=3) with idle_timeout=1 -> released at t=1, TimeoutError never delivered;
 (3) KF-C14-2: restart while a retry delay / waiter timeout is pending -> never retried / never timed out.
Run: PYTHONPATH=/verif /verif/.venv/bin/python this_file.py      exit 1 while any of them is present."""
import sys

sys.path[:0] = ["/verif"]
import vlib.boot  # noqa: F401,E402
from vlib.replay import load_harness  # noqa: E402

c13 = load_harness("/verif/harness/C13.py")
c14 = load_harness("/verif/harness/C14.py")
bad = 0
first = c13.run_first(lambda: c13._make(0, 0, 0))
print("uninterrupted chain:", first["status"], first["result"], "persisted ticks:", [t["type"] for t in first["ticks"]])
again = c13.run_restarted(lambda: c13._make(0, 0, 0), first["ticks"][:2])
print("(1) restart after [add_event(Start), step_result(s0)] ->", again["status"], again["result"])
bad |= again["status"] != "completed"
obs = c14.run_first(lambda: c14._wait_wf(3), idle_timeout=1, horizon=12)
print("(2) wait timeout=3, idle_timeout=1, nobody answers ->", obs["status"], obs["result"], "released:", obs["aborts"])
bad |= obs["status"] != "completed"
f2 = c14.run_first(lambda: c14._retry_wf(2, 1), idle_timeout=1000, horizon=12)
k = c14._crash_index(f2["ticks"], 0)
r2 = c14.run_restarted(lambda: c14._retry_wf(2, 1), f2["ticks"][:k], idle_timeout=1000, horizon=12)
print("(3) restart while a 2 s retry delay is pending ->", r2["status"], r2["result"], "(uninterrupted:", f2["status"], f2["result"], ")")
bad |= r2["status"] != "completed"
sys.exit(1 if bad else 0)
