"""Observation on the UNMODIFIED tree (C13): a run that was resumed once cannot always be resumed a second
time - the tick log written across the two server lives is not replayable as one log.

Replay (replay_ticks_stream) applies rewind_in_progress only once, at the start of the log.  A resumed
control loop, however, starts from the snapshot (in-flight executions re-queued) and hands out worker ids
afresh, starting at 0.  With num_workers > 1 the id an in-flight execution gets after the resume can
differ from the id it had in the first life; its step_result tick (new id) is appended to the same log.
A later replay of the whole log meets that step_result while the execution is still registered under
its old id: ValueError("Worker 0 not found in in_progress"); PersistenceDecorator._on_server_start marks
the handler 'failed' (an idle reload through send_event raises instead).

Workflow   fan: sends Item(1), Item(2)      work (num_workers=2): Item(n) -> Done(n)
           join: collects both Done events -> Joined       publish (slow): finishes with 'done [1, 2]'
Life 1: work(Item 1) [worker 0] and work(Item 2) [worker 1] run concurrently; Item 1 completes,
        Item 2 is still busy                                                      -> process dies
Life 2: restart; Item 2 is executed again, now as worker 0, completes (step_result(work#0) appended);
        join fires, `publish` is busy                                             -> process dies
Life 3: restart.  Expected: resumed, `publish` re-executed, 'completed' with 'done [1, 2]'.
        exit 1 = the observation (handler 'failed': Worker 0 not found in in_progress).
"""
from __future__ import annotations

import asyncio
import glob
import logging
import os
import sys
import types
import warnings

TREE = os.environ.get("TREE", "/repo")
sys.path[:0] = ["/tmp/seed/shims", *sorted(glob.glob(f"{TREE}/packages/*/src")), f"{TREE}/src"]
_srv = types.ModuleType("llama_agents.server")
_srv.__path__ = [f"{TREE}/packages/llama-agents-server/src/llama_agents/server"]
sys.modules["llama_agents.server"] = _srv
logging.disable(logging.CRITICAL)
warnings.simplefilter("ignore")

from llama_agents.server._runtime.idle_release_runtime import IdleReleaseDecorator  # noqa: E402
from llama_agents.server._runtime.persistence_runtime import PersistenceDecorator  # noqa: E402
from llama_agents.server._runtime.server_runtime import ServerRuntimeDecorator  # noqa: E402
from llama_agents.server._service import _WorkflowService  # noqa: E402
from llama_agents.server._store.abstract_workflow_store import HandlerQuery  # noqa: E402
from llama_agents.server._store.memory_workflow_store import MemoryWorkflowStore  # noqa: E402
from workflows import Context, Workflow, step  # noqa: E402
from workflows.events import Event, StartEvent, StopEvent  # noqa: E402
from workflows.plugins.basic import BasicRuntime  # noqa: E402

LIFE = 1
BUSY: asyncio.Event | None = None


class Item(Event):
    n: int


class Done(Event):
    n: int


class Joined(Event):
    ns: list[int]


class TwoWorkers(Workflow):
    @step
    async def fan(self, ctx: Context, ev: StartEvent) -> Item | None:
        ctx.send_event(Item(n=1))
        ctx.send_event(Item(n=2))
        return None

    @step(num_workers=2)
    async def work(self, ev: Item) -> Done:
        if LIFE == 1 and ev.n == 1:
            await asyncio.sleep(0.05)  # still busy when Item 2 arrives: Item 2 gets worker id 1
        if LIFE == 1 and ev.n == 2:
            assert BUSY is not None
            await BUSY.wait()  # life 1 ends in here
        return Done(n=ev.n)

    @step
    async def join(self, ctx: Context, ev: Done) -> Joined | None:
        got = ctx.collect_events(ev, [Done, Done])
        if got is None:
            return None
        return Joined(ns=sorted(d.n for d in got))

    @step
    async def publish(self, ev: Joined) -> StopEvent:
        if LIFE == 2:
            assert BUSY is not None
            await BUSY.wait()  # life 2 ends in here
        return StopEvent(result=f"done {ev.ns}")


def make_server(store):
    persistence = PersistenceDecorator(BasicRuntime(), store=store)
    runtime = ServerRuntimeDecorator(
        IdleReleaseDecorator(persistence, store=store, idle_timeout=3600.0), store=store, persistence_backoff=[]
    )
    wf = TwoWorkers(timeout=None)
    wf._switch_workflow_name("two")
    wf._switch_runtime(runtime)
    return _WorkflowService(runtime=runtime, store=store), wf, persistence


def image(store: MemoryWorkflowStore) -> MemoryWorkflowStore:
    s = MemoryWorkflowStore()
    s.handlers = {k: v.model_copy(deep=True) for k, v in store.handlers.items()}
    s.ticks = {k: list(v) for k, v in store.ticks.items()}
    return s


def log(store, run_id):
    out = []
    for t in store.ticks[run_id]:
        d = t.tick_data
        if d["type"] == "step_result":
            out.append(f"step_result({d['step_name']}#{d['worker_id']})")
        elif d["type"] != "idle_check":
            out.append(d["type"])
    return out


async def settle(n=60):
    for _ in range(n):
        await asyncio.sleep(0.005)


async def main() -> int:
    global LIFE, BUSY
    BUSY = asyncio.Event()
    s1 = MemoryWorkflowStore()
    svc1, wf1, _ = make_server(s1)
    await svc1.start()
    data = await svc1.start_workflow(wf1, "h-1")
    run_id = data.run_id
    await settle()
    img1 = image(s1)  # work(Item 2) busy, everything else persisted
    await svc1.stop()
    await settle(10)
    n1 = len(log(img1, run_id))
    print("life 1 log:", log(img1, run_id))

    LIFE = 2
    svc2, _w2, p2 = make_server(img1)
    await svc2.start()
    await asyncio.wait_for(p2.resume_task, 5)
    await settle()
    r2 = (await img1.query(HandlerQuery(handler_id_in=["h-1"])))[0]
    img2 = image(img1)  # publish busy
    await svc2.stop()
    await settle(10)
    print(f"life 2 (status {r2.status!r}) log:", log(img2, run_id)[n1:])

    LIFE = 3
    svc3, _w3, p3 = make_server(img2)
    await svc3.start()
    await asyncio.wait_for(p3.resume_task, 5)
    await settle()
    r3 = (await img2.query(HandlerQuery(handler_id_in=["h-1"])))[0]
    await svc3.stop()
    await settle(10)
    res = r3.result.result if r3.result else None
    print(f"life 3: status={r3.status!r} result={res!r} error={r3.error!r}")
    if r3.status == "completed" and res == "done [1, 2]":
        print("OK")
        return 0
    print("OBSERVATION: the second restart cannot replay the log written by the first two lives")
    return 1


if __name__ == "__main__":
    sys.exit(asyncio.run(main()))
