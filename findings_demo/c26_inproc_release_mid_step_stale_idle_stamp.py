"""C26 finding (in-process server stack): a run that is NOT idle is released (its control loop is cancelled in the
middle of a step), because the release decision trusts a stale `idle_since` stamp.

`_IdleReleaseInternalRunAdapter.write_to_event_stream` stamps the handler `idle_since=now` and starts a timer whenever the
engine publishes WorkflowIdleEvent.  The stamp is only ever cleared by `IdleReleaseExternalRunAdapter.send_event`.  When
the run leaves the idle state by any other road, the stamp stays and `_release_idle_handler` (which only looks at the
stamp and at the clock) aborts the run `idle_timeout` seconds later although a step is running:

  A. a wait_for_event timeout fires (an internal timer tick) and the step carries on with its fallback work;
  B. an event that was already in the mailbox when the idle check ran: send_event cleared the stamp BEFORE the idle event
     re-set it, then the event is processed with the stamp in place.

Consequences shown below: (A) the fallback never finishes, the handler stays 'running' (and marked idle) forever;
(B) the step is cut off mid-way (its orphaned task keeps running detached from any control loop); the next event
reloads the run and the interrupted event is executed a second time.

Real stack: ServerRuntimeDecorator(IdleReleaseDecorator(PersistenceDecorator(BasicRuntime))) + MemoryWorkflowStore +
_WorkflowService, assembled as in WorkflowServer.__init__ (server.py itself needs starlette), plain asyncio, real time.
Run: PYTHONPATH=/verif /verif/.venv/bin/python /verif/findings_demo/c26_inproc_release_mid_step_stale_idle_stamp.py
exit 1 = defect present, 0 = not present."""
import vlib.boot  # noqa: F401
import asyncio
import logging
import sys

from vlib import h_idle

logging.disable(logging.CRITICAL)

from llama_agents.server._store.abstract_workflow_store import HandlerQuery  # noqa: E402
from workflows import Context, Workflow, step  # noqa: E402
from workflows.events import HumanResponseEvent, StartEvent, StopEvent  # noqa: E402

IDLE_TIMEOUT = 0.3


class Answer(HumanResponseEvent):
    n: int


class AskWithFallback(Workflow):
    log: list = []

    @step
    async def ask(self, ctx: Context, ev: StartEvent) -> StopEvent:
        try:
            a = await ctx.wait_for_event(Answer, waiter_id="q", timeout=0.1)
        except asyncio.TimeoutError:
            self.log.append("no answer: fallback work starts")
            await asyncio.sleep(0.5)            # e.g. an LLM call; longer than what is left of idle_timeout
            self.log.append("fallback work finished")
            return StopEvent(result="fallback")
        return StopEvent(result=a.n)


class Fold(Workflow):
    log: list = []

    @step
    async def begin(self, ctx: Context, ev: StartEvent) -> None:
        return None

    @step(num_workers=1)
    async def on_answer(self, ctx: Context, ev: Answer) -> StopEvent | None:
        self.log.append(f"on_answer({ev.n}) starts")
        seen = await ctx.store.get("seen", default=[])
        await asyncio.sleep(0.5)                # longer than idle_timeout
        seen = seen + [ev.n]
        await ctx.store.set("seen", seen)
        self.log.append(f"on_answer({ev.n}) done")
        return StopEvent(result=seen) if len(seen) >= 2 else None


async def scenario_a() -> bool:
    st = h_idle.InprocStack(IDLE_TIMEOUT)
    wf = AskWithFallback(timeout=None)
    st.add_workflow("ask", wf)
    await st.service.start()
    h = await st.service.start_workflow(wf, "hA", None)
    await asyncio.sleep(1.5)
    rec = (await st.store.query(HandlerQuery(run_id_in=[h.run_id])))[0]
    print("A. waiter timeout 0.1 s, fallback work 0.5 s, idle_timeout 0.3 s; 1.5 s later:")
    print(f"   step log: {wf.log}")
    print(f"   handler status={rec.status} idle_since set={rec.idle_since is not None} "
          f"result={rec.result.result if rec.result else None}; live control loops={st.basic.live_loops(h.run_id)}")
    aborted_busy = [a for a in st.basic.aborts if a["was_running"] and a["workers_running"]]
    print(f"   control loop cancelled while a step was running: {len(aborted_busy)} time(s)")
    await st.service.stop()
    return rec.status == "completed" and not aborted_busy


async def scenario_b() -> bool:
    st = h_idle.InprocStack(IDLE_TIMEOUT)
    wf = Fold(timeout=None)
    st.add_workflow("fold", wf)
    await st.service.start()
    h = await st.service.start_workflow(wf, "hB", None)
    await st.service.send_event("hB", Answer(n=11))     # at once: it is in the mailbox when the idle check runs
    await asyncio.sleep(0.4)                            # on_answer(11) is still working; idle_timeout has passed
    await st.service.send_event("hB", Answer(n=7))
    await asyncio.sleep(1.6)
    rec = (await st.store.query(HandlerQuery(run_id_in=[h.run_id])))[0]
    print("B. answer 11 sent right after the start, step takes 0.5 s, idle_timeout 0.3 s, answer 7 sent at 0.4 s:")
    print(f"   step log: {wf.log}")
    print(f"   handler status={rec.status} result={rec.result.result if rec.result else None} (expected [11, 7])")
    aborted_busy = [a for a in st.basic.aborts if a["was_running"] and a["workers_running"]]
    print(f"   control loop cancelled while a step was running: {len(aborted_busy)} time(s)")
    await st.service.stop()
    return rec.status == "completed" and rec.result is not None and rec.result.result == [11, 7] and not aborted_busy


async def main() -> int:
    ok_a = await scenario_a()
    ok_b = await scenario_b()
    return 0 if (ok_a and ok_b) else 1


if __name__ == "__main__":
    rc = asyncio.run(main())
    print("VIOLATED: a run with a step in progress was released" if rc else "ok: no release while a step was running")
    sys.exit(rc)
