"""C18 known finding (KF-C18-2): exceptions carried by failure events / persisted ticks are written as
(qualified type name, str(exc)) and rebuilt with ``exc_cls(message)``.  That reproduces type and message only for classes
whose constructor takes the message alone AND whose ``str()`` returns it:

* ``KeyError('a')``: str() is "'a'", rebuilt as KeyError("'a'") whose str() is '"\\'a\\'"' — one more layer of quotes per trip;
* classes with other required constructor arguments — ``json.JSONDecodeError(msg, doc, pos)``, ``UnicodeDecodeError``
  (5 arguments), any user exception ``__init__(self, code, msg)`` (httpx.HTTPStatusError, openai errors are of this kind):
  ``exc_cls(message)`` raises TypeError, which ``_deserialize_exception`` does not catch (it catches ImportError,
  AttributeError, ValueError), so VALIDATING THE PERSISTED TICK / THE FAILURE EVENT RAISES: a run whose step failed with such
  an exception cannot be read back from its tick log.
Not repaired as a whole: (type name, message) cannot rebuild arbitrary exception classes — that needs a richer wire format.
Hardening patch for the crash: findings_demo/patches/c18_exception_ctor_fallback.diff (falls back to Exception(message), as
already documented for unimportable types; type still not kept, so this script still exits 1 after it).

Exit 1 while the defect is present, 0 otherwise."""
import glob
import json
import os
import sys

REPO = os.environ.get("VERIF_REPO", "/repo")
sys.path[:0] = sorted(glob.glob(os.path.join(REPO, "packages/*/src"))) + ["/verif/shims"]

from workflows.context.serializers import JsonSerializer  # noqa: E402
from workflows.events import Event, WorkflowFailedEvent  # noqa: E402
from workflows.runtime.types.results import StepWorkerFailed  # noqa: E402
from workflows.runtime.types.ticks import TickStepResult, WorkflowTickAdapter  # noqa: E402


class ApiError(Exception):
    def __init__(self, status: int, msg: str) -> None:
        super().__init__(status, msg)
        self.status, self.msg = status, msg


def caught(fn):
    try:
        fn()
    except Exception as e:  # noqa: BLE001
        return e


S = JsonSerializer()
excs = [
    ValueError("bad value"),
    KeyError("a"),
    ApiError(503, "unavailable"),
    caught(lambda: json.loads("{not json")),
    caught(lambda: b"\xff".decode("utf-8")),
]
bad = 0
for exc in excs:
    for label, fn in [
        ("persisted TickStepResult", lambda: WorkflowTickAdapter.validate_python(json.loads(json.dumps(WorkflowTickAdapter.dump_python(
            TickStepResult(step_name="s", worker_id=0, event=Event(), result=[StepWorkerFailed(exception=exc, failed_at=1.5)]), mode="json")))).result[0].exception),
        ("WorkflowFailedEvent via JsonSerializer", lambda: S.deserialize(S.serialize(
            WorkflowFailedEvent(step_name="s", exception=exc, attempts=1, elapsed_seconds=0.5))).exception),
    ]:
        try:
            back = fn()
            ok = type(back) is type(exc) and str(back) == str(exc)
            print("%-40s %-18s str=%r -> %s str=%r  %s" % (label, type(exc).__name__, str(exc), type(back).__name__, str(back), "ok" if ok else "CHANGED"))
        except Exception as e:  # noqa: BLE001
            ok = False
            print("%-40s %-18s str=%r -> READING BACK RAISES %s: %s" % (label, type(exc).__name__, str(exc), type(e).__name__, e))
        bad += 0 if ok else 1
print("DEFECT PRESENT: %d carried exceptions changed type/message or made deserialization raise" % bad if bad else "ok")
sys.exit(1 if bad else 0)
