"""C12 known finding KF-C12-1: a step snapshotted while running its 2nd attempt is resumed with a fresh retry budget.
Policy stop_after_attempt(3): uninterrupted = 3 executions.  Snapshot during execution #2, resume: the resumed run
should execute it 2 more times (attempts 2 and 3); it executes it 3 times.  Exit 1 while present."""
import asyncio
import json
import os
import sys

REPO = os.environ.get("VERIF_REPO", "/repo")
sys.path[:0] = [os.path.join(REPO, "packages/llama-index-workflows/src"), "/verif/shims"]

from workflows import Context, Workflow, step  # noqa: E402
from workflows.events import StartEvent, StopEvent  # noqa: E402
from workflows.retry_policy import retry_policy, stop_after_attempt, wait_fixed  # noqa: E402

runs = []


class WF(Workflow):
    @step(retry_policy=retry_policy(wait=wait_fixed(0), stop=stop_after_attempt(3)))
    async def s(self, ctx: Context, ev: StartEvent) -> StopEvent:
        runs.append(ctx.retry_info().retry_number)
        await asyncio.sleep(0.1)
        raise ValueError("always")


async def main() -> int:
    wf = WF(timeout=5)
    h = wf.run()
    await asyncio.sleep(0.15)                 # execution #2 (retry_number 1) is running
    snap = json.loads(json.dumps(h.ctx.to_dict()))
    before = list(runs)
    h.ctx.cancel() if hasattr(h.ctx, "cancel") else None
    await h.cancel_run()
    try:
        await h
    except Exception:  # noqa: BLE001
        pass
    runs.clear()
    wf2 = WF(timeout=5)
    try:
        await wf2.run(ctx=Context.from_dict(wf2, snap))
    except Exception:  # noqa: BLE001
        pass
    print("retry numbers before the snapshot:", before, " after resume:", runs)
    return 1 if len(runs) != 2 or runs[:1] != [1] else 0


sys.exit(asyncio.run(main()))
