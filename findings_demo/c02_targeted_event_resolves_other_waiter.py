"""C02 finding: an event addressed to step `b` (ctx.send_event(ev, step="b")) also resolves step `a`'s pending
wait_for_event of the same type -> it is delivered to a step other than the addressed one.
Run: PYTHONPATH=/verif /verif/.venv/bin/python this_file.py   (prints VIOLATED / ok)"""
import vlib.boot  # noqa
import asyncio
from workflows import Context, Workflow, step
from workflows.events import Event, StartEvent, StopEvent


class Go(Event):
    pass


class Pong(Event):
    pass


class Done(Event):
    who: str


log = []


class W(Workflow):
    @step
    async def start(self, ctx: Context, ev: StartEvent) -> Go | Pong:
        return Go()

    @step
    async def a(self, ctx: Context, ev: Go) -> Done:
        got = await ctx.wait_for_event(Pong, timeout=None)   # a waits for a Pong
        log.append(("a-got-pong", id(got)))
        return Done(who="a")

    @step
    async def b(self, ctx: Context, ev: Pong) -> Done:       # b accepts Pong
        log.append(("b-got-pong", id(ev)))
        return Done(who="b")

    @step
    async def fin(self, ctx: Context, ev: Done) -> StopEvent | None:
        if ev.who == "b":
            await asyncio.sleep(0.05)
            return StopEvent(result=list(log))
        return None


async def main():
    h = W(timeout=5).run()
    await asyncio.sleep(0.05)                    # a is now waiting
    h.ctx.send_event(Pong(), step="b")           # addressed to b ONLY
    res = await h
    a_got = [x for x in res if x[0] == "a-got-pong"]
    print("log:", res)
    print("VIOLATED: event addressed to b was delivered to a's waiter" if a_got else "ok")

asyncio.run(main())
