"""C11 known finding: with a stop_after_delay policy the retry/give-up decision depends on elapsed time, which the
replay (ctx.to_dict(), running_steps(), context_from_ticks) recomputes from ITS OWN clock: the live run has failed and
stopped, the replayed state says the run is still running (replay stamps the first attempt with its own, later, clock
so the recorded failure looks early and a retry is granted).  Exit 1 while present."""
import asyncio
import os
import sys

REPO = os.environ.get("VERIF_REPO", "/repo")
sys.path[:0] = [os.path.join(REPO, "packages/llama-index-workflows/src"), "/verif/shims"]

from workflows import Context, Workflow, step  # noqa: E402
from workflows.events import StartEvent, StopEvent  # noqa: E402
from workflows.retry_policy import retry_policy, stop_after_delay, wait_fixed  # noqa: E402


class WF(Workflow):
    @step(retry_policy=retry_policy(wait=wait_fixed(0.05), stop=stop_after_delay(0.12)))
    async def s(self, ctx: Context, ev: StartEvent) -> StopEvent:
        await asyncio.sleep(0.2)  # the first attempt alone outlasts the 0.12 s budget: live gives up at once
        raise ValueError("always")


async def main() -> int:
    h = WF(timeout=5).run()
    try:
        await h
        print("unexpected success")
    except Exception as e:  # noqa: BLE001
        print("live run ended with:", type(e).__name__, e)
    d = h.ctx.to_dict()
    steps = await h.ctx.running_steps()
    print("replayed: is_running =", d["is_running"], " running_steps =", steps)
    return 1 if (d["is_running"] or steps) else 0


sys.exit(asyncio.run(main()))
