"""C02/C10 finding: a second matching event that arrives after a waiter was already resolved (but before the
replayed step consumed it) re-resolves the waiter: the first event is overwritten (lost) and the waiting step is
replayed twice; the second replay finds no waiter, registers a new one and re-publishes the waiter_event.
Run: PYTHONPATH=/verif /verif/.venv/bin/python this_file.py"""
import vlib.boot  # noqa
import asyncio
from workflows import Context, Workflow, step
from workflows.events import Event, InputRequiredEvent, HumanResponseEvent, StartEvent, StopEvent


class Ask(InputRequiredEvent):
    pass


class Ans(HumanResponseEvent):
    n: int


runs = []


class W(Workflow):
    @step
    async def a(self, ctx: Context, ev: StartEvent) -> StopEvent:
        runs.append("enter")
        got = await ctx.wait_for_event(Ans, waiter_event=Ask(), waiter_id="w", timeout=None)
        runs.append(("got", got.n))
        await asyncio.sleep(0.05)
        return StopEvent(result=got.n)


async def main():
    h = W(timeout=5).run()
    asks = []

    async def watch():
        async for e in h.stream_events():
            if isinstance(e, Ask):
                asks.append(e)
    t = asyncio.create_task(watch())
    await asyncio.sleep(0.05)
    # two responses in one burst (double click)
    h.ctx.send_event(Ans(n=1))
    h.ctx.send_event(Ans(n=2))
    res = await h
    await asyncio.sleep(0.1)
    t.cancel()
    print("result:", res, "runs:", runs, "asks published:", len(asks))
    gots = [r for r in runs if r != "enter"]
    if res != 1 or len(gots) != 1 or len(asks) != 1:
        print("VIOLATED: first response lost / step resumed more than once / waiter_event re-published")
    else:
        print("ok")

asyncio.run(main())
