"""C03 finding: WorkflowIdleEvent was published while a failed step's retry was waiting out its delay
(the timer heap is invisible to _check_idle_state). Consequence on the server: the idle-release decorator
releases the run from memory and the retry never happens (C14).
Run: PYTHONPATH=/verif /verif/.venv/bin/python this_file.py"""
import vlib.boot  # noqa
import asyncio
from workflows import Workflow, step
from workflows.events import StartEvent, StopEvent, WorkflowIdleEvent
from workflows.retry_policy import retry_policy, stop_after_attempt, wait_fixed

calls = []


class W(Workflow):
    @step(retry_policy=retry_policy(wait=wait_fixed(0.2), stop=stop_after_attempt(3)))
    async def s(self, ev: StartEvent) -> StopEvent:
        calls.append(1)
        if len(calls) == 1:
            raise ValueError("boom")
        return StopEvent(result=len(calls))


async def main():
    h = W(timeout=5).run()
    seen = []
    async for e in h.stream_events(expose_internal=True):
        if isinstance(e, WorkflowIdleEvent):
            seen.append(("idle", len(calls)))
    print("result", await h, "idle events (calls so far):", seen)
    print("VIOLATED: idle announced while a retry was scheduled" if seen else "ok")

asyncio.run(main())
