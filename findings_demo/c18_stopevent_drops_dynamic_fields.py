"""C18 finding: a StopEvent (or any StopEvent subclass) loses ALL its dynamic fields on every serialization route.

``StopEvent.custom_model_dump`` has the same name as ``DictLikeModel.custom_model_dump`` and therefore REPLACES it as the
class's model serializer; it adds ``result`` but no longer ``_data``.  ``StopEvent(result=5, note="x")`` comes back from
JsonSerializer, from the client envelope and from the persisted tick format as ``StopEvent(result=5)``; the same
keyword on a plain ``Event`` survives.  (A run resumed from its tick log, and every client, sees the stop event without them.)

Exit 1 while the defect is present, 0 otherwise."""
import glob
import json
import os
import sys

REPO = os.environ.get("VERIF_REPO", "/repo")
sys.path[:0] = sorted(glob.glob(os.path.join(REPO, "packages/*/src"))) + ["/verif/shims"]

from llama_agents.client.protocol.serializable_events import EventEnvelopeWithMetadata  # noqa: E402
from workflows.context.serializers import JsonSerializer  # noqa: E402
from workflows.events import Event, StopEvent  # noqa: E402
from workflows.runtime.types.ticks import TickAddEvent, WorkflowTickAdapter  # noqa: E402


class Done(StopEvent):
    score: int = 0


S = JsonSerializer()


def routes(ev):
    yield "JsonSerializer", S.deserialize(S.serialize(ev))
    env = EventEnvelopeWithMetadata.model_validate_json(EventEnvelopeWithMetadata.from_event(ev).model_dump_json())
    yield "client envelope", env.load_event([type(ev)])
    wire = json.dumps(WorkflowTickAdapter.dump_python(TickAddEvent(event=ev), mode="json"))
    yield "persisted tick", WorkflowTickAdapter.validate_python(json.loads(wire)).event


bad = 0
for make in (lambda: Event(note="x", n=2), lambda: StopEvent(result=5, note="x", n=2), lambda: Done(score=3, result="r", note="x", n=2)):
    ev = make()
    for name, back in routes(ev):
        same = type(back) is type(ev) and dict(back.items()) == dict(ev.items())
        print("%-10s %-16s dynamic fields sent %r -> received %r   %s" % (type(ev).__name__, name, dict(ev.items()), dict(back.items()), "ok" if same else "LOST"))
        bad += 0 if same else 1
print("DEFECT PRESENT: %d round trips lost the dynamic fields of a stop event" % bad if bad else "ok: dynamic fields of stop events survive")
sys.exit(1 if bad else 0)
