"""By-catch of the C36 / C26 harness (DBOS stack; belongs to C15 "handler record reflects the outcome"; latent behind
c36_dbos_lifecycle_row_never_created because it needs the lifecycle row to exist).

The deferred-release timer of the DBOS decorator is cancelled only when `wait_receive` returns a tick.  If the run
announces itself idle while the next event has ALREADY been received (it sits in the control loop's tick buffer), nothing
cancels the timer any more; the run then finishes, and `idle_timeout` later `_release_idle_handler` "releases" the
finished run: begin_release succeeds (the row is still 'active'), `_await_and_mark_released` gets the result of the
finished run at once and writes `update_handler_status(status="running", idle_since=now)` — a COMPLETED handler is back
to 'running' (and 'released'), so clients that poll the handler see a run that never ends, and a later send_event would
"resume" a finished workflow.

Same real stack as the other C36 demos (DBOSRuntime replaced by BasicRuntime; real time).
Run: PYTHONPATH=/verif /verif/.venv/bin/python /verif/findings_demo/c36_bycatch_dbos_stale_release_timer_reopens_completed_handler.py
exit 1 = defect present, 0 = not present."""
import vlib.boot  # noqa: F401
import asyncio
import logging
import os
import shutil
import sys
import tempfile

from vlib import h_idle

h_idle.ensure_dbos_importable()
logging.disable(logging.CRITICAL)

import llama_agents.dbos.idle_release as dir_  # noqa: E402
from llama_agents.server._store.abstract_workflow_store import HandlerQuery  # noqa: E402
from workflows import Context, Workflow, step  # noqa: E402
from workflows.events import HumanResponseEvent, StartEvent, StopEvent  # noqa: E402

IDLE_TIMEOUT = 0.2


class Answer(HumanResponseEvent):
    n: int


class AskTwice(Workflow):
    @step
    async def ask(self, ctx: Context, ev: StartEvent) -> StopEvent:
        a = await ctx.wait_for_event(Answer, waiter_id="q1", timeout=None)
        b = await ctx.wait_for_event(Answer, waiter_id="q2", timeout=None)
        return StopEvent(result=a.n * 100 + b.n)


async def main(db_path: str) -> int:
    h_idle.make_lifecycle_db(db_path)
    st = h_idle.DbosStack(IDLE_TIMEOUT, db_path)
    wf = AskTwice(timeout=None)
    st.add_workflow("ask", wf)
    await st.service.start()
    h = await st.service.start_workflow(wf, "h1", None)
    await st.lock.create(h.run_id)
    # both answers arrive together: the second one is already received when the run announces "idle" after the first
    await st.service.send_event("h1", Answer(n=11))
    await st.service.send_event("h1", Answer(n=7))
    await asyncio.sleep(0.05)
    rec = (await st.store.query(HandlerQuery(run_id_in=[h.run_id])))[0]
    print(f"right after both answers : status={rec.status} result={rec.result.result if rec.result else None} "
          f"row={h_idle.lifecycle_row(db_path, h.run_id)!r}")
    first = rec.status
    await asyncio.sleep(IDLE_TIMEOUT * 3)
    rec = (await st.store.query(HandlerQuery(run_id_in=[h.run_id])))[0]
    print(f"{IDLE_TIMEOUT * 3:.1f} s later              : status={rec.status} idle_since set={rec.idle_since is not None} "
          f"row={h_idle.lifecycle_row(db_path, h.run_id)!r}")
    await st.service.stop()
    return 0 if (first == "completed" and rec.status == "completed") else 1


if __name__ == "__main__":
    d = tempfile.mkdtemp(prefix="c36demo-")
    saved = dir_.DBOS
    dir_.DBOS = h_idle.DBOSUnavailable
    try:
        rc = asyncio.run(main(os.path.join(d, "dbos.sqlite")))
    finally:
        dir_.DBOS = saved
        shutil.rmtree(d, ignore_errors=True)
    print("VIOLATED: a completed handler was put back to 'running' by a stale idle-release timer" if rc
          else "ok: the completed handler stayed completed")
    sys.exit(rc)
