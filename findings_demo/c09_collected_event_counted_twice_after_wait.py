import asyncio, sys
import vlib.boot
from workflows import Context, Workflow, step
from workflows.events import Event, StartEvent, StopEvent, HumanResponseEvent
class Item(Event):
    n: int
class Ans(HumanResponseEvent):
    pass
class W(Workflow):
    @step
    async def start(self, ctx: Context, ev: StartEvent) -> Item | None:
        ctx.send_event(Item(n=1)); return None
    @step
    async def join(self, ctx: Context, ev: Item) -> StopEvent | None:
        got = ctx.collect_events(ev, [Item, Item])
        print("join", ev.n, "got", None if got is None else [g.n for g in got])
        await ctx.wait_for_event(Ans, waiter_id="w")
        if got is None: return None
        return StopEvent(result=[g.n for g in got])
async def main():
    h = W(timeout=2).run()
    await asyncio.sleep(0.1)
    h.ctx.send_event(Ans())
    try:
        print("result", await asyncio.wait_for(h, 3))
    except Exception as e: print("exc", repr(e))
asyncio.run(main())
