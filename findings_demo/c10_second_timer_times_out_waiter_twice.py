"""C10: a wait_for_event(timeout=...) raised TimeoutError TWICE for one wait.
Two timers exist for waiter id "w" (a stale one from an earlier, already answered wait with the same id, and the
second wait's own).  The stale timer times the second wait out; its replay is queued behind a busy worker; then the
second timer fires on the already timed-out waiter and queued the replay again.  Exit 1 while the defect is present."""
import asyncio
import os
import sys

REPO = os.environ.get("VERIF_REPO", "/repo")
sys.path[:0] = [os.path.join(REPO, "packages/llama-index-workflows/src"), "/verif/shims"]

from workflows import Context, Workflow, step  # noqa: E402
from workflows.events import Event, StartEvent, StopEvent  # noqa: E402


class Go(Event):
    n: int


class Resp(Event):
    pass


class Slow(Event):
    pass


class Done(Event):
    n: int
    timed_out: bool


timeouts = []


class WF(Workflow):
    @step
    async def start(self, ctx: Context, ev: StartEvent) -> Go:
        return Go(n=1)

    @step(num_workers=1)
    async def a(self, ctx: Context, ev: Go | Slow) -> Done | None:
        if isinstance(ev, Slow):
            await asyncio.sleep(0.5)  # keeps the only worker busy
            return None
        try:
            await ctx.wait_for_event(Resp, waiter_id="w", timeout=0.3)
            return Done(n=ev.n, timed_out=False)
        except asyncio.TimeoutError:
            timeouts.append(ev.n)
            return Done(n=ev.n, timed_out=True)

    @step
    async def fin(self, ctx: Context, ev: Done) -> StopEvent | None:
        got = await ctx.store.get("got", default=0) + 1
        await ctx.store.set("got", got)
        if ev.n == 2 and ev.timed_out and got >= 3:
            return StopEvent(result=got)
        return None


async def main() -> int:
    wf = WF(timeout=5, disable_validation=True)
    h = wf.run()
    await asyncio.sleep(0.05)
    h.ctx.send_event(Resp())          # answers wait #1 (timer T1 stays in the heap, due at 0.3)
    await asyncio.sleep(0.15)
    h.ctx.send_event(Go(n=2))         # wait #2 with the same waiter id: timer T2 due at ~0.5
    await asyncio.sleep(0.05)
    h.ctx.send_event(Slow())          # occupies the only worker from ~0.25 to ~0.75
    try:
        await asyncio.wait_for(h, 3)
    except Exception:
        pass
    n2 = timeouts.count(2)
    print("TimeoutError raised for wait #2:", n2, "time(s)")
    return 1 if n2 > 1 else 0


sys.exit(asyncio.run(main()))
