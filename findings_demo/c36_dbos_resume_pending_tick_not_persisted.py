"""C36 / C26 finding (DBOS stack; latent behind c36_dbos_lifecycle_row_never_created: it needs the lifecycle row to exist,
which today only the package's unit tests arrange by calling lock.create() by hand).

The event that wakes a released run is folded into the rebuilt BrokerState by `_do_resume(run_id, pending_tick=tick)`
(`rebuild_state_from_ticks(init_state, [pending_tick])`) but is NEVER appended to the persisted tick log — ticks are only
persisted by the control loop's on_tick, and this tick never goes through a control loop.  The resumed loop then persists
the step's `step_result` tick.  The log now holds a step_result whose add_event is missing, so the NEXT rebuild from the
log (`_broker_state_from_ticks`: second release + resume here; a restart would do the same) raises
`ValueError: Worker 0 not found in in_progress`.  Because `try_begin_resume` has already flipped the row to 'active' and
WorkflowHandler.send_event runs in a background task, the error is swallowed: the second event is lost, nothing is
running, the handler says 'running' forever, and every later send sees 'active' and goes nowhere.

Same real stack as the other C36 demo (DBOSRuntime replaced by BasicRuntime; real time).
Run: PYTHONPATH=/verif /verif/.venv/bin/python /verif/findings_demo/c36_dbos_resume_pending_tick_not_persisted.py
exit 1 = defect present, 0 = not present."""
import vlib.boot  # noqa: F401
import asyncio
import logging
import os
import shutil
import sys
import tempfile

from vlib import h_idle

h_idle.ensure_dbos_importable()
logging.disable(logging.CRITICAL)

import llama_agents.dbos.idle_release as dir_  # noqa: E402
from llama_agents.server._store.abstract_workflow_store import HandlerQuery  # noqa: E402
from workflows import Context, Workflow, step  # noqa: E402
from workflows.events import HumanResponseEvent, StartEvent, StopEvent  # noqa: E402

IDLE_TIMEOUT = 0.05


class Answer(HumanResponseEvent):
    n: int


class AskTwice(Workflow):
    @step
    async def ask(self, ctx: Context, ev: StartEvent) -> StopEvent:
        a = await ctx.wait_for_event(Answer, waiter_id="q1", timeout=None)
        b = await ctx.wait_for_event(Answer, waiter_id="q2", timeout=None)
        return StopEvent(result=a.n * 100 + b.n)


async def main(db_path: str) -> int:
    h_idle.make_lifecycle_db(db_path)
    st = h_idle.DbosStack(IDLE_TIMEOUT, db_path)
    errors = []
    asyncio.get_running_loop().set_exception_handler(lambda loop, ctx: errors.append(repr(ctx.get("exception"))))
    wf = AskTwice(timeout=None)
    st.add_workflow("ask", wf)
    await st.service.start()
    h = await st.service.start_workflow(wf, "h1", None)
    run_id = h.run_id
    await st.lock.create(run_id)  # what "create: called when workflow starts" promises and the unit tests do by hand

    async def show(label: str) -> None:
        rec = (await st.store.query(HandlerQuery(run_id_in=[run_id])))[0]
        ticks = [t.tick_data.get("type") for t in await st.store.get_ticks(run_id)]
        print(f"{label:34s} row={h_idle.lifecycle_row(db_path, run_id)!r:11s} live_loops={st.basic.live_loops(run_id)} "
              f"status={rec.status} idle={rec.idle_since is not None}\n{'':34s} ticks={ticks}")

    await asyncio.sleep(IDLE_TIMEOUT * 6)
    await show("idle > timeout (released #1):")
    await st.service.send_event("h1", Answer(n=11))          # resumes the run; tick folded into the state only
    await asyncio.sleep(IDLE_TIMEOUT * 6)
    await show("answer 1 sent, idle again (#2):")
    await st.service.send_event("h1", Answer(n=7))           # second resume: rebuild from the tick log fails
    await asyncio.sleep(IDLE_TIMEOUT * 6)
    await show("answer 2 sent:")
    rec = (await st.store.query(HandlerQuery(run_id_in=[run_id])))[0]
    print("background errors:", errors)
    ok = rec.status == "completed" and rec.result is not None and rec.result.result == 1107
    await st.service.stop()
    return 0 if ok else 1


if __name__ == "__main__":
    d = tempfile.mkdtemp(prefix="c36demo-")
    saved = dir_.DBOS
    dir_.DBOS = h_idle.DBOSUnavailable
    try:
        rc = asyncio.run(main(os.path.join(d, "dbos.sqlite")))
    finally:
        dir_.DBOS = saved
        shutil.rmtree(d, ignore_errors=True)
    print("VIOLATED: the second answer was lost and the run is wedged (handler 'running', nothing executing)" if rc
          else "ok: both answers processed across two release/resume cycles, result 1107")
    sys.exit(rc)
