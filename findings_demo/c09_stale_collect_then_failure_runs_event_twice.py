"""C09: an event handed to a collecting step is counted twice when the invocation that collected it (on a STALE snapshot) then fails
and is granted a retry: the engine both re-runs the invocation on its slot (stale collect) and queues the retry of the same event.

Workflow: `start` fans out Item(1), Item(2) to `join` (2 workers), which collects [Item, Item] and, having collected, raises once for
Item(1) (retry policy: retry at once).  Item(2)'s invocation finishes first, so Item(1)'s snapshot is stale.
Expected (statement): each received event appears in at most one returned list -> exactly ONE list [Item, Item] with {1, 2} is returned.
"""
import asyncio
import sys

import vlib.boot  # noqa: F401
from workflows import Context, Workflow, step
from workflows.events import Event, StartEvent, StopEvent
from workflows.retry_policy import retry_policy, stop_after_attempt, wait_fixed


class Item(Event):
    n: int


LISTS = []
GATE = {}
FAILED = []


class W(Workflow):
    @step
    async def start(self, ctx: Context, ev: StartEvent) -> Item | None:
        ctx.send_event(Item(n=1))
        ctx.send_event(Item(n=2))
        return None

    @step(num_workers=2, retry_policy=retry_policy(stop=stop_after_attempt(3), wait=wait_fixed(0)))
    async def join(self, ctx: Context, ev: Item) -> StopEvent | None:
        if ev.n == 1 and not FAILED:
            await GATE["two_done"].wait()          # Item(2)'s invocation reports first: our snapshot is stale
        got = ctx.collect_events(ev, [Item, Item])
        print("  join", ev.n, "attempt", ctx.retry_info().retry_number if hasattr(ctx, "retry_info") else "?", "got", None if got is None else [g.n for g in got])
        if ev.n == 2:
            GATE["two_done"].set()
        if ev.n == 1 and not FAILED:
            FAILED.append(1)
            raise RuntimeError("fails once after collecting")
        if got is None:
            return None
        LISTS.append(sorted(g.n for g in got))
        if len(LISTS) >= 1 and ev.n == 1 and len(FAILED) == 1 and len(LISTS) == 1:
            # give a possible duplicate delivery the chance to show up before the run ends
            await asyncio.sleep(0.05)
        return StopEvent(result=LISTS[-1]) if len(LISTS) >= 2 or True else None


async def main() -> int:
    GATE["two_done"] = asyncio.Event()
    wf = W(timeout=5)
    h = wf.run()
    seen = []

    async def watch():
        async for e in h.stream_events(expose_internal=True):
            seen.append(e)

    t = asyncio.ensure_future(watch())
    try:
        res = await h
    except Exception as e:  # noqa: BLE001
        res = repr(e)
    await asyncio.wait_for(t, 2)
    snap = h.ctx.to_dict()
    import json
    buf = {k: len(v) for k, v in snap["workers"]["join"]["collected_events"].items()}
    runs = [e for e in seen if type(e).__name__ == "StepStateChanged" and e.name == "join" and str(e.step_state).endswith("RUNNING") and "NOT" not in str(e.step_state)]
    print("result:", res, "| lists returned:", LISTS, "| left in the collect buffer:", buf, "| executions of join:", len(runs))
    # Item(1) and Item(2) are two events: join must run 2 (+1 retry) times and nothing may be left behind that contains Item(1) again
    ok = LISTS == [[1, 2]] and not any(buf.values()) and len(runs) <= 3
    print("OK" if ok else "FAIL: Item(1) was executed by the re-run AND by the retry")
    return 0 if ok else 1


if __name__ == "__main__":
    sys.exit(asyncio.run(main()))
