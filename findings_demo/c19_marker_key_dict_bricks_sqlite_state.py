"""C19 known finding (KF-C19-1): a JSON value that happens to carry the serializer's tag keys makes the SQLite-backed state
unreadable (or silently changes its type).

DictState values are stored one by one with ``JsonSerializer.serialize`` and read with ``deserialize``; the serializer tags
models IN BAND (``{"__is_pydantic": true, "value": ..., "qualified_name": ...}``) and ``deserialize_value`` treats ANY dict
with a truthy ``__is_pydantic`` / ``__is_component`` and a truthy ``qualified_name`` as such a tag.  So
``await store.set("saved", {"__is_pydantic": True, "qualified_name": "a"})`` succeeds, and from then on EVERY operation of
that run's state (get of any key, set, edit_state, get_state) raises ValueError("Failed to deserialize state value ...").
A realistic producer of such values is ``Context.to_dict()`` / ``JsonSerializer.serialize_value`` output kept in the state:
then nothing raises but the dict comes back as a model instance.  InMemoryStateStore keeps the dict as it is (the same
happens to it only through Context.to_dict()/from_dict()).  Typed state models are not affected (nested, never re-read).
Not repaired: telling user dicts from tags needs an escaping rule in the persisted format (design decision; every
already stored state and the event wire format share these tags).

Exit 1 while the defect is present, 0 otherwise."""
import glob
import os
import sys
import types

REPO = os.environ.get("VERIF_REPO", "/repo")
sys.path[:0] = sorted(glob.glob(os.path.join(REPO, "packages/*/src"))) + ["/verif/shims"]
try:
    import starlette  # noqa: F401
except ImportError:  # sandbox without starlette: skip llama_agents/server/__init__.py, the sub-modules import unmodified
    _pkg = types.ModuleType("llama_agents.server")
    _pkg.__path__ = [os.path.join(REPO, "packages/llama-agents-server/src/llama_agents/server")]
    sys.modules["llama_agents.server"] = _pkg
import asyncio  # noqa: E402
import shutil  # noqa: E402
import tempfile  # noqa: E402

from pydantic import BaseModel  # noqa: E402

from llama_agents.server._store.sqlite.sqlite_workflow_store import SqliteWorkflowStore  # noqa: E402
from workflows.context.serializers import JsonSerializer  # noqa: E402
from workflows.context.state_store import DictState, InMemoryStateStore  # noqa: E402


class Point(BaseModel):
    x: int = 0


async def probe(store, label):
    bad = 0
    await store.set("other", 1)
    v = {"__is_pydantic": True, "qualified_name": "a"}
    await store.set("saved", dict(v))
    for what, op in [("get('saved')", lambda: store.get("saved")), ("get('other')", lambda: store.get("other")),
                     ("set('third', 3)", lambda: store.set("third", 3))]:
        try:
            got = await op()
            ok = (got == v) if what == "get('saved')" else True
            print("%-20s after set('saved', %r): %s -> %r  %s" % (label, v, what, got, "ok" if ok else "CHANGED"))
        except Exception as e:  # noqa: BLE001
            ok = False
            print("%-20s after set('saved', %r): %s RAISES %s: %s" % (label, v, what, type(e).__name__, e))
        bad += 0 if ok else 1
    return bad


async def probe_tagged(store, label):
    tagged = JsonSerializer().serialize_value(Point(x=3))  # a plain JSON dict, e.g. part of a Context.to_dict() kept in the state
    await store.set_state(DictState(kept=tagged))
    got = await store.get("kept")
    ok = got == tagged and type(got) is dict
    print("%-20s state['kept'] = %r -> get('kept') = %r  %s" % (label, tagged, got, "ok" if ok else "CHANGED (dict became a model)"))
    return 0 if ok else 1


async def main():
    d = tempfile.mkdtemp()
    try:
        ws = SqliteWorkflowStore(os.path.join(d, "wf.db"))
        bad = await probe(InMemoryStateStore(DictState()), "InMemoryStateStore")
        bad += await probe(ws.create_state_store("run-1"), "SqliteStateStore")
        bad += await probe_tagged(InMemoryStateStore(DictState()), "InMemoryStateStore")
        bad += await probe_tagged(ws.create_state_store("run-2"), "SqliteStateStore")
    finally:
        shutil.rmtree(d, ignore_errors=True)
    print("DEFECT PRESENT: %d observations differ from a nested-dict model" % bad if bad else "ok")
    return 1 if bad else 0


sys.exit(asyncio.run(main()))
