import asyncio, sys
import vlib.boot
from workflows import Context, Workflow, step
from workflows.events import Event, StartEvent, StopEvent
from workflows.retry_policy import retry_policy, stop_after_attempt, wait_fixed
class Item(Event):
    n: int
FAILED=[]
class W(Workflow):
    @step
    async def start(self, ctx: Context, ev: StartEvent) -> Item | None:
        ctx.send_event(Item(n=1)); return None
    @step(retry_policy=retry_policy(stop=stop_after_attempt(3), wait=wait_fixed(0)))
    async def join(self, ctx: Context, ev: Item) -> StopEvent | None:
        got = ctx.collect_events(ev, [Item, Item])
        print("join", ev.n, "got", None if got is None else [g.n for g in got])
        if not FAILED:
            FAILED.append(1); raise RuntimeError("once")
        if got is None: return None
        return StopEvent(result=[g.n for g in got])
async def main():
    try:
        print("result", await asyncio.wait_for(W(timeout=2).run(), 3))
    except Exception as e: print("exc", repr(e))
asyncio.run(main())
