"""C18 finding: an event with a field called ``class_name`` cannot be read back.

``JsonSerializer.serialize_value`` recognises a LlamaIndex component by ``hasattr(value, "class_name")``.  An Event answers
``hasattr`` for the name of any dynamic field (``DictLikeModel.__getattr__`` looks into ``_data``) and for any declared field,
so ``Event(class_name="Foo")`` is written as ``{"__is_component": true, "value": <to_dict() = the dynamic fields only>, ...}``
and reading it back calls ``EventClass.from_dict`` which does not exist: AttributeError out of ``JsonSerializer.deserialize``
and out of ``WorkflowTickAdapter.validate_python`` (a persisted tick carrying such an event makes the run unresumable).

Exit 1 while the defect is present, 0 otherwise."""
import glob
import json
import os
import sys

REPO = os.environ.get("VERIF_REPO", "/repo")
sys.path[:0] = sorted(glob.glob(os.path.join(REPO, "packages/*/src"))) + ["/verif/shims"]

from workflows.context.serializers import JsonSerializer  # noqa: E402
from workflows.events import Event  # noqa: E402
from workflows.runtime.types.ticks import TickAddEvent, WorkflowTickAdapter  # noqa: E402


class Found(Event):
    path: str = ""


S = JsonSerializer()
bad = 0
for label, rt in [
    ("JsonSerializer", lambda e: S.deserialize(S.serialize(e))),
    ("persisted tick", lambda e: WorkflowTickAdapter.validate_python(
        json.loads(json.dumps(WorkflowTickAdapter.dump_python(TickAddEvent(event=e), mode="json")))).event),
]:
    ev = Found(path="a.py", class_name="Foo", line=3)
    try:
        back = rt(ev)
        ok = type(back) is Found and back.path == "a.py" and dict(back.items()) == {"class_name": "Foo", "line": 3}
        print("%-15s Found(path='a.py', class_name='Foo', line=3) -> %r %r  %s" % (label, back, dict(back.items()), "ok" if ok else "CHANGED"))
    except Exception as e:  # noqa: BLE001
        ok = False
        print("%-15s Found(path='a.py', class_name='Foo', line=3) -> raises %s: %s" % (label, type(e).__name__, e))
    bad += 0 if ok else 1
print("wire form:", S.serialize(Found(path="a.py", class_name="Foo", line=3)))
print("DEFECT PRESENT: an event with a 'class_name' field does not survive" if bad else "ok")
sys.exit(1 if bad else 0)
