"""C20 finding: on SqliteStateStore a completed ``set_state`` (or ``clear``) is silently overwritten by an ``edit_state`` block
that started before it.

``edit_state`` holds the store's asyncio lock from its read to its write-back; ``set`` goes through ``edit_state``; but
``SqliteStateStore.set_state`` (and ``clear``, which calls it) never takes the lock.  Two steps of one run: step A enters
``async with ctx.store.edit_state()`` and awaits something inside the block; step B calls ``set_state`` meanwhile and
returns; A's block exits and writes back the state it loaded before B's write.  The final state equals neither serial order
(A;B nor B;A).  InMemoryStateStore.set_state takes the lock and waits.

Exit 1 while the defect is present, 0 otherwise."""
import glob
import os
import sys
import types

REPO = os.environ.get("VERIF_REPO", "/repo")
sys.path[:0] = sorted(glob.glob(os.path.join(REPO, "packages/*/src"))) + ["/verif/shims"]
try:
    import starlette  # noqa: F401
except ImportError:  # sandbox without starlette: skip llama_agents/server/__init__.py, the sub-modules import unmodified
    _pkg = types.ModuleType("llama_agents.server")
    _pkg.__path__ = [os.path.join(REPO, "packages/llama-agents-server/src/llama_agents/server")]
    sys.modules["llama_agents.server"] = _pkg
import asyncio  # noqa: E402
import shutil  # noqa: E402
import tempfile  # noqa: E402

from llama_agents.server._store.sqlite.sqlite_workflow_store import SqliteWorkflowStore  # noqa: E402
from workflows.context.state_store import DictState, InMemoryStateStore  # noqa: E402


async def scenario(store, writer):
    await store.set_state(DictState(count=5))
    inside = asyncio.Event()
    release = asyncio.Event()

    async def step_a():
        async with store.edit_state() as s:
            n = s.get("count", 0)
            inside.set()
            await release.wait()          # e.g. an LLM call inside the block
            s["count"] = n + 1

    async def step_b():
        await inside.wait()
        if writer == "set_state":
            await store.set_state(DictState(count=100, owner="b"))
        else:
            await store.clear()
        # step B's write has completed here (for a store that locks, it is still waiting: release A first)

    a = asyncio.ensure_future(step_a())
    b = asyncio.ensure_future(step_b())
    await asyncio.sleep(0.05)
    release.set()
    await asyncio.gather(a, b)
    return dict((await store.get_state()).items())


async def main():
    bad = 0
    d = tempfile.mkdtemp()
    try:
        ws = SqliteWorkflowStore(os.path.join(d, "wf.db"))
        for writer, serial in [("set_state", [{"count": 100, "owner": "b"}, {"count": 101, "owner": "b"}]), ("clear", [{}, {"count": 1}])]:
            for label, store in [("InMemoryStateStore", InMemoryStateStore(DictState())),
                                 ("SqliteStateStore", ws.create_state_store("run-" + writer))]:
                final = await scenario(store, writer)
                ok = final in serial
                print("%-20s count=5; edit_state{count+=1, suspended} || %-9s -> final %r ; serial results %r  %s"
                      % (label, writer, final, serial, "ok" if ok else "WRITE LOST"))
                bad += 0 if ok else 1
    finally:
        shutil.rmtree(d, ignore_errors=True)
    print("DEFECT PRESENT: %d completed writes were overwritten by an older edit_state block" % bad if bad else "ok")
    return 1 if bad else 0


sys.exit(asyncio.run(main()))
