"""C03: WorkflowIdleEvent is announced although an event the run sent to itself (ctx.send_event) is already in its mailbox.
The finished worker's result is taken before the pending mailbox pull; the state looks quiescent; the idle check fires.
Exit 1 while the defect is present."""
import asyncio
import os
import sys

REPO = os.environ.get("VERIF_REPO", "/repo")
sys.path[:0] = [os.path.join(REPO, "packages/llama-index-workflows/src"), "/verif/shims"]

from workflows import Context, Workflow, step  # noqa: E402
from workflows.events import Event, StartEvent, StopEvent, WorkflowIdleEvent  # noqa: E402


class Job(Event):
    pass


class WF(Workflow):
    @step
    async def start(self, ctx: Context, ev: StartEvent) -> Job | None:
        ctx.send_event(Job())      # delivered to the run's mailbox before this step returns
        return None

    @step
    async def work(self, ctx: Context, ev: Job) -> StopEvent:
        return StopEvent(result="done")


async def main() -> int:
    h = WF(timeout=5).run()
    seen = []
    async for ev in h.stream_events(expose_internal=True):
        seen.append(type(ev).__name__)
    await h
    idles = seen.count("WorkflowIdleEvent")
    print("stream:", [s for s in seen if s != "StepStateChanged"])
    print("WorkflowIdleEvent announced while the run still had its own event to process:", idles)
    return 1 if idles else 0


sys.exit(asyncio.run(main()))
