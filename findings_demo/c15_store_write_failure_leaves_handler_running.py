"""C15 finding: a single transient failure of store.append_event inside _ServerInternalRunAdapter.write_to_event_stream is NOT
retried (only the status update goes through ServerRuntimeDecorator._retry_store_write).  The exception propagates into the
control loop (process_command -> CommandPublishEvent), the run dies with the store's exception, no terminal event is published
and nobody updates the handler: the stored handler stays 'running' for ever although its run has ended.  (If the failing append
is the terminal event's own, the status was already written: the record then says 'completed' while the run raised.)

Runs the real _WorkflowService.start_workflow -> ServerRuntimeDecorator -> BasicRuntime stack with a MemoryWorkflowStore whose
FIRST append_event raises once.  Exit 1 when the defect is present, 0 otherwise.
Run: PYTHONPATH=/verif /verif/.venv/bin/python this_file.py"""
import vlib.boot  # noqa
import asyncio
import logging
import sys

from llama_agents.server._runtime.server_runtime import ServerRuntimeDecorator
from llama_agents.server._service import _WorkflowService
from llama_agents.server._store.abstract_workflow_store import HandlerQuery
from llama_agents.server._store.memory_workflow_store import MemoryWorkflowStore
from workflows import Workflow, step
from workflows.events import StartEvent, StopEvent
from workflows.plugins.basic import BasicRuntime

logging.disable(logging.CRITICAL)


class FlakyStore(MemoryWorkflowStore):
    """one transient write failure: the first append_event does not go through"""

    def __init__(self) -> None:
        super().__init__()
        self.failed_once = False

    async def append_event(self, run_id, event) -> None:
        if not self.failed_once:
            self.failed_once = True
            raise IOError("connection reset (transient)")
        await super().append_event(run_id, event)


class W(Workflow):
    @step
    async def s(self, ev: StartEvent) -> StopEvent:
        return StopEvent(result=7)


async def main() -> int:
    store = FlakyStore()
    rt = ServerRuntimeDecorator(BasicRuntime(), store, persistence_backoff=[0.01, 0.02])
    svc = _WorkflowService(rt, store)
    w = W(timeout=5)
    w._switch_workflow_name("w")       # what WorkflowServer.add_workflow does
    w._switch_runtime(rt)
    await svc.start()
    hd = await svc.start_workflow(w, "h0", StartEvent())
    run = svc._workflow_run_handler("w", hd.run_id)
    try:
        print("run ended with result", await run)
        ended = "completed"
    except Exception as e:  # noqa: BLE001
        print("run ended with exception %s: %s" % (type(e).__name__, e))
        ended = "failed"
    h = (await store.query(HandlerQuery(handler_id_in=["h0"])))[0]
    print("stored handler: status=%s error=%r result=%r" % (h.status, h.error, h.result))
    await svc.stop()
    if h.status != ended:
        print("VIOLATED: the run has ended (%s) but the stored handler says %r" % (ended, h.status))
        return 1
    print("ok: the handler record reflects the outcome")
    return 0


sys.exit(asyncio.run(main()))
