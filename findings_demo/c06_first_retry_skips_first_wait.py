"""C06 known finding KF-C06-1: the first retry of a step does not use the first wait of wait_chain / the initial
exponential delay.  Exit 1 while the defect is present."""
import sys
sys.path[:0] = ["/verif", "/verif/shims"]
import vlib.boot  # noqa: F401,E402
from workflows.retry_policy import retry_policy, stop_never, wait_chain, wait_exponential, wait_fixed  # noqa: E402

bad = 0
p = retry_policy(wait=wait_chain(wait_fixed(1), wait_fixed(2), wait_fixed(5)), stop=stop_never())
d = p.next(0.0, 1, ValueError("x"))  # the runtime calls next(elapsed, failures=1, exc) after the FIRST failure
print("wait_chain(1,2,5): delay before first retry =", d, "(documented: 1)")
bad |= d != 1
p = retry_policy(wait=wait_exponential(multiplier=1, exp_base=2, max=60), stop=stop_never())
d = p.next(0.0, 1, ValueError("x"))
print("wait_exponential(multiplier=1): delay before first retry =", d, "(documented/tenacity: 1)")
bad |= d != 1
sys.exit(1 if bad else 0)
