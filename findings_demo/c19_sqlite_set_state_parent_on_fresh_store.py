"""C19 finding: on a SqliteStateStore whose run has no row yet, ``set_state(<parent-type state>)`` does not merge — it stores the
PARENT-type object, so the child fields disappear and the state changes type.

``set_state`` documents "replace or parent-type merge": a base workflow's step may write its base state type without
obliterating the fields of the inheriting workflow's state.  ``SqliteStateStore.set_state`` only merges when a row exists;
when the first state operation of a run is such a set_state (``row is None``) it saves ``state`` as it is.  InMemoryStateStore
(which always starts from the type defaults) merges.  After any other first operation (get / set / edit_state create the
default row) SQLite merges too.

Exit 1 while the defect is present, 0 otherwise."""
import glob
import os
import sys
import types

REPO = os.environ.get("VERIF_REPO", "/repo")
sys.path[:0] = sorted(glob.glob(os.path.join(REPO, "packages/*/src"))) + ["/verif/shims"]
try:
    import starlette  # noqa: F401
except ImportError:  # sandbox without starlette: skip llama_agents/server/__init__.py, the sub-modules import unmodified
    _pkg = types.ModuleType("llama_agents.server")
    _pkg.__path__ = [os.path.join(REPO, "packages/llama-agents-server/src/llama_agents/server")]
    sys.modules["llama_agents.server"] = _pkg
import asyncio  # noqa: E402
import shutil  # noqa: E402
import tempfile  # noqa: E402

from pydantic import BaseModel  # noqa: E402

from llama_agents.server._store.sqlite.sqlite_workflow_store import SqliteWorkflowStore  # noqa: E402
from workflows.context.state_store import InMemoryStateStore  # noqa: E402


class BaseState(BaseModel):
    topic: str = ""


class ChildState(BaseState):
    budget: int = 7


async def probe(store, label):
    await store.set_state(BaseState(topic="cats"))
    state = await store.get_state()
    budget = await store.get("budget", "<not found>")
    ok = type(state) is ChildState and state.topic == "cats" and budget == 7
    print("%-20s fresh store; set_state(BaseState(topic='cats')) -> get_state() = %r ; get('budget') = %r  %s"
          % (label, state, budget, "ok" if ok else "CHILD FIELDS LOST"))
    return 0 if ok else 1


async def main():
    d = tempfile.mkdtemp()
    try:
        ws = SqliteWorkflowStore(os.path.join(d, "wf.db"))
        bad = await probe(InMemoryStateStore(ChildState()), "InMemoryStateStore")
        bad += await probe(ws.create_state_store("run-1", ChildState), "SqliteStateStore")
    finally:
        shutil.rmtree(d, ignore_errors=True)
    print("DEFECT PRESENT" if bad else "ok")
    return 1 if bad else 0


sys.exit(asyncio.run(main()))
