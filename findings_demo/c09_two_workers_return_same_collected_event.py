"""C09 known finding: with num_workers=2 on the collecting step, two invocations that start from the same buffer
snapshot both complete a set — the buffered event appears in TWO returned lists.  Exit 1 while present."""
import asyncio
import os
import sys

REPO = os.environ.get("VERIF_REPO", "/repo")
sys.path[:0] = [os.path.join(REPO, "packages/llama-index-workflows/src"), "/verif/shims"]

from workflows import Context, Workflow, step  # noqa: E402
from workflows.events import Event, StartEvent, StopEvent  # noqa: E402


class A(Event):
    tag: str


class B(Event):
    tag: str


class Out(Event):
    tags: list


lists = []


class WF(Workflow):
    @step
    async def start(self, ctx: Context, ev: StartEvent) -> A | B | None:
        ctx.send_event(A(tag="a1"))
        await asyncio.sleep(0.05)      # a1 is buffered before the two B's arrive
        ctx.send_event(B(tag="b1"))
        ctx.send_event(B(tag="b2"))
        return None

    @step(num_workers=2)
    async def join(self, ctx: Context, ev: A | B) -> Out | None:
        got = ctx.collect_events(ev, [A, B])
        if got is None:
            return None
        await asyncio.sleep(0.05)      # both invocations are in flight with the same snapshot
        lists.append([e.tag for e in got])
        return Out(tags=[e.tag for e in got])

    @step
    async def fin(self, ctx: Context, ev: Out) -> StopEvent | None:
        await asyncio.sleep(0.2)
        return StopEvent(result=None)


async def main() -> int:
    await WF(timeout=5, disable_validation=True).run()
    print("returned lists:", lists)
    n = sum(1 for l in lists if "a1" in l)
    print("event a1 appears in", n, "returned list(s)")
    return 1 if n > 1 else 0


sys.exit(asyncio.run(main()))
