"""C36 finding (DBOS stack): an idle run is NEVER released, because the run's `run_lifecycle` row is never created.

`DBOSIdleReleaseDecorator._release_idle_handler` starts with `lifecycle.begin_release(run_id)`, a compare-and-set
`UPDATE run_lifecycle SET state='releasing' WHERE run_id=? AND state='active'`.  The row it updates is only ever
inserted by `RunLifecycleLock.create(run_id)` ("Called when workflow starts") — and nothing under llama_agents/dbos calls
`create` (only the package's unit tests do, by hand).  So the UPDATE matches no row, `begin_release` returns False and the
release is silently skipped, for every run, forever: no TickIdleRelease, the control loop stays in memory, the handler is
never marked idle.  (The DBOS end-to-end test cannot see this: a live run and a released run look the same to a client.)

What runs here: the REAL DBOSIdleReleaseDecorator / EventInterceptorDecorator / TickPersistenceDecorator /
ServerRuntimeDecorator / _WorkflowService and the REAL SqliteRunLifecycleLock on a temporary sqlite file created from the
package's own migration SQL, on a plain asyncio loop with real time.  Only DBOSRuntime itself (dbos / sqlalchemy are not
installed here) is replaced by BasicRuntime — and the real runtime.py never touches the lifecycle table except to build
the lock factory (checked below by AST), so that replacement cannot hide a row insertion.

Run: PYTHONPATH=/verif /verif/.venv/bin/python /verif/findings_demo/c36_dbos_lifecycle_row_never_created.py
exit 1 = defect present, 0 = not present."""
import vlib.boot  # noqa: F401
import asyncio
import logging
import os
import shutil
import sys
import tempfile

from vlib import h_idle

h_idle.ensure_dbos_importable()
logging.disable(logging.CRITICAL)

import llama_agents.dbos.idle_release as dir_  # noqa: E402
from workflows import Context, Workflow, step  # noqa: E402
from workflows.events import HumanResponseEvent, StartEvent, StopEvent  # noqa: E402

IDLE_TIMEOUT = 0.05


class Answer(HumanResponseEvent):
    n: int


class AskHuman(Workflow):
    @step
    async def ask(self, ctx: Context, ev: StartEvent) -> StopEvent:
        a = await ctx.wait_for_event(Answer, waiter_id="q1", timeout=None)
        return StopEvent(result=a.n)


async def main(db_path: str) -> int:
    h_idle.make_lifecycle_db(db_path)
    st = h_idle.DbosStack(IDLE_TIMEOUT, db_path)
    wf = AskHuman(timeout=None)
    st.add_workflow("ask", wf)
    await st.service.start()
    h = await st.service.start_workflow(wf, "h1", None)
    run_id = h.run_id
    await asyncio.sleep(IDLE_TIMEOUT * 8)  # idle for 8 x idle_timeout

    ticks = [t.tick_data.get("type") for t in await st.store.get_ticks(run_id)]
    rec = (await st.service.query_handlers(h_idle_query(run_id)))[0]
    row = h_idle.lifecycle_row(db_path, run_id)
    live = st.basic.live_loops(run_id)
    print(f"after being idle for {IDLE_TIMEOUT * 8:.2f}s with idle_timeout={IDLE_TIMEOUT}s:")
    print(f"  tick log                : {ticks}")
    print(f"  run_lifecycle row       : {row!r}")
    print(f"  live control-loop tasks : {live}")
    print(f"  handler idle_since      : {rec.idle_since}   status: {rec.status}")
    released = "idle_release" in ticks and row == "released" and live == 0 and rec.idle_since is not None
    # the run still works (the defect is only that it is never released)
    await st.service.send_event("h1", Answer(n=7))
    await asyncio.sleep(0.1)
    rec = (await st.service.query_handlers(h_idle_query(run_id)))[0]
    print(f"  after the answer        : status={rec.status} result={rec.result.result if rec.result else None}")
    await st.service.stop()
    return 0 if released else 1


def h_idle_query(run_id: str):
    from llama_agents.server._store.abstract_workflow_store import HandlerQuery

    return HandlerQuery(run_id_in=[run_id])


if __name__ == "__main__":
    callers = h_idle.dbos_lifecycle_create_callers()
    print(f"calls of a method named create() under llama_agents/dbos (lifecycle.py itself excluded): {callers or 'none'}")
    print(f"runtime.py touches the lifecycle lock beyond building its factory: {h_idle.dbos_runtime_touches_lifecycle()}")
    d = tempfile.mkdtemp(prefix="c36demo-")
    saved = dir_.DBOS
    dir_.DBOS = h_idle.DBOSUnavailable
    try:
        rc = asyncio.run(main(os.path.join(d, "dbos.sqlite")))
    finally:
        dir_.DBOS = saved
        shutil.rmtree(d, ignore_errors=True)
    print("VIOLATED: the idle run was never released (begin_release finds no row to compare-and-set)" if rc
          else "ok: the idle run was released")
    sys.exit(rc)
