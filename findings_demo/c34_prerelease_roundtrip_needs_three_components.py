"""C34 known finding KF-C34-1 / KF-C34-2: a PEP 440 a/b/rc pre-release whose release tuple is not exactly three
components long does not survive PEP 440 -> semver -> PEP 440: pep440_to_semver() writes '<release>-<label>.<n>' for any
release length, but semver_to_pep440() only recognises that form after exactly three components
(_SEMVER_PRERELEASE_RE = ^(\\d+\\.\\d+\\.\\d+)-...), so the semver spelling comes back unchanged instead of the normalised
original.  Runs the real functions of /repo/src (override with VERIF_REPO).  Exit 1 while the defect is present."""
import os
import sys

sys.path.insert(0, os.path.join(os.environ.get("VERIF_REPO", "/repo"), "src"))
from packaging.version import Version  # noqa: E402

from dev_cli.changesets import pep440_to_semver, semver_to_pep440  # noqa: E402

bad = 0
for v in ["1.2a1", "1b1", "1.2.3.4rc2", "2.0rc1", "1.2.3a4", "1.2", "1.2.3.4"]:
    semver = pep440_to_semver(v)
    back = semver_to_pep440(semver)
    want = str(Version(v))
    ok = back == want
    print(f"{v!r:14} -> pep440_to_semver -> {semver!r:16} -> semver_to_pep440 -> {back!r:16} normalised original {want!r:12} {'ok' if ok else 'ROUND TRIP FAILS'}")
    bad |= not ok
sys.exit(1 if bad else 0)
