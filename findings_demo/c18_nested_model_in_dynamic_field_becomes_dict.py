"""C18 known finding (KF-C18-1): a pydantic model carried in a DYNAMIC field of an event, or as / inside a StopEvent
``result``, comes back as a plain dict; the same model in a declared (typed) field, or in a bare payload handed to
JsonSerializer, comes back as the model.

``JsonSerializer.serialize_value`` tags the EVENT with its class but dumps its content with
``model_dump(mode="json")``; ``_data`` and ``result`` are untyped, so a model nested there is flattened to its fields and
nothing on the wire says which class it was.  After a durable resume (persisted tick format) a step therefore receives
``ev.payload`` as a dict where the first execution received a model, and ``StopEvent(result=Model(...))`` yields a dict.
Not repaired: preserving the class needs a tag inside ``_data`` / ``result`` on the wire, i.e. a change of the event wire
format that every client (client envelope ``value``) and stored tick log sees — a design decision, not a small patch.

Exit 1 while the defect is present, 0 otherwise."""
import glob
import json
import os
import sys

REPO = os.environ.get("VERIF_REPO", "/repo")
sys.path[:0] = sorted(glob.glob(os.path.join(REPO, "packages/*/src"))) + ["/verif/shims"]

from pydantic import BaseModel  # noqa: E402
from workflows.context.serializers import JsonSerializer  # noqa: E402
from workflows.events import Event, StopEvent  # noqa: E402
from workflows.runtime.types.ticks import TickAddEvent, WorkflowTickAdapter  # noqa: E402


class Point(BaseModel):
    x: int = 0


class Typed(Event):
    p: Point


S = JsonSerializer()


def tick_rt(ev):
    wire = json.dumps(WorkflowTickAdapter.dump_python(TickAddEvent(event=ev), mode="json"))
    return WorkflowTickAdapter.validate_python(json.loads(wire)).event


bad = 0
cases = [
    ("bare payload {'p': Point}", lambda: S.deserialize(S.serialize({"p": Point(x=3)}))["p"]),
    ("typed field  Typed(p=Point)", lambda: tick_rt(Typed(p=Point(x=3))).p),
    ("dynamic field Event(p=Point)", lambda: tick_rt(Event(p=Point(x=3))).p),
    ("dynamic field Event(p=[Point])", lambda: tick_rt(Event(p=[Point(x=3)])).p[0]),
    ("StopEvent(result=Point) [JsonSerializer]", lambda: S.deserialize(S.serialize(StopEvent(result=Point(x=3)))).result),
    ("StopEvent(result=Point) [tick]", lambda: tick_rt(StopEvent(result=Point(x=3))).result),
    ("StopEvent(result={'p': Point})", lambda: tick_rt(StopEvent(result={"p": Point(x=3)})).result["p"]),
]
for label, fn in cases:
    back = fn()
    ok = isinstance(back, Point) and back == Point(x=3)
    print("%-45s sent Point(x=3) -> received %r  %s" % (label, back, "ok" if ok else "CLASS LOST"))
    bad += 0 if ok else 1
print("DEFECT PRESENT: %d placements lose the model class" % bad if bad else "ok")
sys.exit(1 if bad else 0)
