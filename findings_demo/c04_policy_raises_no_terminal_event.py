"""C04 finding: when a step's retry policy raises from next(), the run dies with that exception but NO terminal
event is published, so a consumer of handler.stream_events() never terminates (and the server's handler record stays
'running', C15).  Run: PYTHONPATH=/verif /verif/.venv/bin/python this_file.py"""
import vlib.boot  # noqa
import asyncio
from workflows import Workflow, step
from workflows.events import StartEvent, StopEvent


class BadPolicy:
    def next(self, elapsed_time, attempts, error):
        raise RuntimeError("policy bug")


class W(Workflow):
    @step(retry_policy=BadPolicy())
    async def s(self, ev: StartEvent) -> StopEvent:
        raise ValueError("boom")


async def main():
    h = W(timeout=5).run()

    async def consume():
        return [type(e).__name__ async for e in h.stream_events()]
    t = asyncio.create_task(consume())
    try:
        await h
    except Exception as e:
        print("run ended with", type(e).__name__, e)
    try:
        evs = await asyncio.wait_for(t, 1.0)
        print("stream ended:", evs, "-> ok")
    except asyncio.TimeoutError:
        print("VIOLATED: run has ended but the event stream never terminates (no terminal event published)")

asyncio.run(main())
