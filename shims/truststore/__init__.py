"""Name-only shim of ``truststore`` (not installed in the sealed sandbox): lets modules that name it at import time
be imported.  No behaviour: any use raises ``ShimCalled`` (a BaseException)."""


class ShimCalled(BaseException):
    pass


def _called(*_a, **_k):
    raise ShimCalled("truststore (name-only shim) was called: outside every claim")


class SSLContext:
    def __init__(self, *a, **k):
        _called()


inject_into_ssl = _called
extract_from_ssl = _called
