"""Name-only shim of ``cryptography`` (not installed in the sealed sandbox).  It exists so that modules of the
repository under test that name cryptography classes at import time can be imported.  It implements no behaviour:
constructing or calling anything raises ``ShimCalled`` (a BaseException, so no ``except Exception`` of the code under
test can swallow it).  Everything that needs real AES-GCM / PBKDF2 / RSA is outside every claim."""


class ShimCalled(BaseException):
    pass


def _called(*_a, **_k):
    raise ShimCalled("cryptography (name-only shim) was called: outside every claim")


class _Name:
    def __init__(self, *a, **k):
        _called()
