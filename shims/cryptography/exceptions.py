"""Name-only shim (see cryptography/__init__.py)."""


class InvalidTag(Exception):
    pass


class InvalidSignature(Exception):
    pass
