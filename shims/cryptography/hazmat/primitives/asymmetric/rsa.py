"""Name-only shim (see cryptography/__init__.py)."""
from cryptography import _Name


class RSAPublicKey(_Name):
    pass
