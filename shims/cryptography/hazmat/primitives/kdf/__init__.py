"""Name-only shim (see cryptography/__init__.py)."""
