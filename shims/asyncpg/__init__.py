"""Name-only shim of ``asyncpg`` (not installed in the sealed sandbox): lets modules of the repository under test that
merely *name* asyncpg at import time (annotations ``asyncpg.Pool`` / ``asyncpg.Connection``) be imported.  It implements
no behaviour: every call raises ``ShimCalled`` (a BaseException, so no ``except Exception`` of the code under test can
swallow it) and the path is outside every claim."""


class ShimCalled(BaseException):
    pass


def _called(*_a, **_k):
    raise ShimCalled("asyncpg (name-only shim) was called: outside every claim")


class Pool:
    def __init__(self, *a, **k):
        _called()


class Connection:
    def __init__(self, *a, **k):
        _called()


class Record:
    def __init__(self, *a, **k):
        _called()


class PostgresError(Exception):
    pass


class UniqueViolationError(PostgresError):
    pass


connect = _called
create_pool = _called
