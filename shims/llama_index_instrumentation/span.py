from contextvars import ContextVar
from typing import Optional
active_span_id: ContextVar[Optional[str]] = ContextVar("active_span_id", default=None)
