"""Verification shim: no-op stand-in for the llama-index-instrumentation package (observability only)."""
from .dispatcher import get_dispatcher, Dispatcher  # noqa
