from __future__ import annotations
import functools, inspect
from contextlib import contextmanager
from contextvars import ContextVar
from typing import Any

active_instrument_tags: ContextVar[dict] = ContextVar("instrument_tags", default={})

@contextmanager
def instrument_tags(new_tags):
    token = active_instrument_tags.set(new_tags)
    try:
        yield
    finally:
        active_instrument_tags.reset(token)

class Dispatcher:
    def __init__(self, name: str = "root") -> None:
        self.name = name
    def event(self, event: Any, **kwargs: Any) -> None:
        return None
    def span_enter(self, *a: Any, **k: Any) -> None:
        return None
    def span_exit(self, *a: Any, **k: Any) -> None:
        return None
    def span_drop(self, *a: Any, **k: Any) -> None:
        return None
    def capture_propagation_context(self) -> dict:
        return {}
    def restore_propagation_context(self, ctx: dict) -> None:
        return None
    def span(self, func):
        if inspect.iscoroutinefunction(func):
            @functools.wraps(func)
            async def aw(*a, **k):
                return await func(*a, **k)
            return aw
        @functools.wraps(func)
        def w(*a, **k):
            return func(*a, **k)
        return w

_d: dict[str, Dispatcher] = {}
def get_dispatcher(name: str = "root") -> Dispatcher:
    if name not in _d:
        _d[name] = Dispatcher(name)
    return _d[name]
