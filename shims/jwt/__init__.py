"""Name-only shim of PyJWT (not installed in the sealed sandbox).  It exists so that modules of the repository under
test that merely *name* jwt at import time can be imported.  It implements no behaviour: every call raises
``ShimCalled`` (a BaseException, so that no ``except Exception`` of the code under test can swallow it)."""


class ShimCalled(BaseException):
    pass


def _called(*_a, **_k):
    raise ShimCalled("jwt (name-only shim) was called: outside every claim")


get_unverified_header = _called
decode = _called
encode = _called


class PyJWKClient:
    def __init__(self, *a, **k):
        _called()


class PyJWTError(Exception):
    pass


class InvalidTokenError(PyJWTError):
    pass
