"""Name-only shim (see jwt/__init__.py)."""
from jwt import _called


class RSAAlgorithm:
    def __init__(self, *a, **k):
        _called()

    from_jwk = staticmethod(_called)
