from .. import _called


class URL:
    def __init__(self, *a, **k):
        _called()

    @classmethod
    def create(cls, *a, **k):
        _called()


class Engine:
    def __init__(self, *a, **k):
        _called()
