"""Name-only shim of ``sqlalchemy`` (not installed in the sealed sandbox): lets ``llama_agents/dbos/runtime.py`` (which names
``sqlalchemy.engine.URL`` / ``Engine`` at import time) be imported.  No behaviour: every call raises ``ShimCalled``."""


class ShimCalled(BaseException):
    pass


def _called(*_a, **_k):
    raise ShimCalled("sqlalchemy (name-only shim) was called: outside every claim")
