"""Name-only shim (see dbos/__init__.py).  Harnesses that model the DBOS context replace ``get_local_dbos_context`` in the
module under test explicitly and say so in their ASSUMES."""
from . import _called


def get_local_dbos_context(*a, **k):
    _called()
