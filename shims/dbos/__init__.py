"""Name-only shim of ``dbos`` (not installed in the sealed sandbox): lets ``llama_agents/dbos/idle_release.py`` (which
does ``from dbos import DBOS`` at module scope) be imported.  It implements no behaviour: every attribute of ``DBOS``
is a callable that raises ``ShimCalled`` (a BaseException, so no ``except Exception`` of the code under test can swallow
it); a path that reaches it is outside every claim."""


class ShimCalled(BaseException):
    pass


def _called(*_a, **_k):
    raise ShimCalled("dbos (name-only shim) was called: outside every claim")


class _Meta(type):
    def __getattr__(cls, name):
        if name.startswith("__"):
            raise AttributeError(name)
        return _called


def _identity_decorator(*_a, **_k):
    """``@DBOS.step()`` / ``@DBOS.workflow()`` are applied at IMPORT time in llama_agents/dbos/runtime.py: the shim returns the
    function unchanged (no durability, no memoisation), so the module can be imported; calling anything else still raises."""
    def deco(fn):
        return fn
    return deco


class DBOS(metaclass=_Meta):
    step = staticmethod(_identity_decorator)
    workflow = staticmethod(_identity_decorator)

    def __init__(self, *a, **k):
        _called()


class DBOSConfig(dict):
    pass


class SetWorkflowID:
    def __init__(self, *a, **k):
        _called()


class WorkflowHandleAsync:
    def __init__(self, *a, **k):
        _called()

    def __class_getitem__(cls, item):
        return cls
