"""Name-only shim (see dbos/__init__.py)."""


class DBOSNonExistentWorkflowError(Exception):
    pass
