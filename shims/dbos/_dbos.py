"""Name-only shim (see dbos/__init__.py)."""
from . import _called


def _get_dbos_instance(*a, **k):
    _called()
